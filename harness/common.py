"""Shared paths, environment, evidence / findings plumbing for the /verif checks."""
import hashlib
import json
import os
import shutil
import sys
import time

VERIF = os.path.dirname(os.path.dirname(os.path.abspath(__file__)))
REPO = os.environ.get('VERIF_REPO', '/repo')
SPEC = os.path.join(VERIF, 'spec')
WORK_ROOT = os.path.join(VERIF, '.work')
EVIDENCE = os.environ.get('VERIF_EVIDENCE_DIR') or os.path.join(VERIF, 'evidence')   # runs against a patched copy write elsewhere
REPLAYS = os.path.join(VERIF, 'replays')
KNOWN = os.path.join(VERIF, 'known_findings.jsonl')
GUARD = 'RECOGNIZERS_TEXT_VERIF'
NPROC = int(os.environ.get('VERIF_NPROC', str(os.cpu_count() or 4)))


def seed():
    try:
        return int(os.environ.get('VERIF_SEED', '20261003'))
    except ValueError:
        return 20261003


def lib_dirs():
    base = os.path.join(REPO, 'Python', 'libraries')
    return [os.path.join(base, d) for d in sorted(os.listdir(base))
            if os.path.isdir(os.path.join(base, d)) and d != 'resource-generator']


def repo_pythonpath():
    return os.pathsep.join([os.path.join(VERIF, 'shims')] + lib_dirs() + [VERIF])


def setup_sys_path():
    """Put the shims and /repo's library directories first on sys.path."""
    want = [os.path.join(VERIF, 'shims')] + lib_dirs()
    for p in reversed(want):
        if p in sys.path:
            sys.path.remove(p)
        sys.path.insert(0, p)
    os.environ.setdefault('PYTHONDONTWRITEBYTECODE', '1')
    sys.dont_write_bytecode = True


def assert_repo_modules(mods):
    """Machinery failure (exit 2) if a package was imported from anywhere but REPO."""
    root = os.path.realpath(REPO) + os.sep
    for m in mods:
        f = os.path.realpath(getattr(m, '__file__', '') or '')
        if not f.startswith(root):
            sys.stderr.write('MACHINERY: module %s imported from %s, not from %s\n' % (m.__name__, f, root))
            sys.exit(2)


class WorkDir:
    """Per-run scratch directory under /verif/.work, deleted at exit."""

    def __init__(self, tag):
        self.path = os.path.join(WORK_ROOT, '%s-%d-%d' % (tag, os.getpid(), int(time.time())))
        os.makedirs(self.path, exist_ok=True)

    def sub(self, name):
        p = os.path.join(self.path, name)
        os.makedirs(p, exist_ok=True)
        return p

    def file(self, name):
        return os.path.join(self.path, name)

    def cleanup(self):
        if os.environ.get('VERIF_KEEP_WORK'):
            return
        shutil.rmtree(self.path, ignore_errors=True)


# ---------------------------------------------------------------- findings

def load_known():
    """known_findings.jsonl plus any known_findings_<ID>.jsonl next to it (large per-property lists)."""
    import glob
    out = []
    for path in [KNOWN] + sorted(glob.glob(os.path.join(VERIF, 'known_findings_*.jsonl'))):
        if not os.path.exists(path):
            continue
        for line in open(path, encoding='utf-8'):
            line = line.strip()
            if not line or line.startswith('#'):
                continue
            out.append(json.loads(line))
    return out


def match_known(known, prop, key):
    """A violation is 'known' iff an open entry of the same property lists every field of its
    'match' record with the same value in the violation's key."""
    for k in known:
        if k.get('property') != prop or k.get('status') != 'open':
            continue
        m = k.get('match', {})
        if m and all(key.get(f) == v for f, v in m.items()):
            return k
    return None


def write_replay(prop, payload):
    d = os.path.join(REPLAYS, prop)
    os.makedirs(d, exist_ok=True)
    blob = json.dumps(payload, sort_keys=True, ensure_ascii=False, default=str)
    h = hashlib.sha1(blob.encode('utf-8')).hexdigest()[:12]
    p = os.path.join(d, h + '.json')
    with open(p, 'w', encoding='utf-8') as f:
        f.write(json.dumps(payload, indent=1, sort_keys=True, ensure_ascii=False, default=str))
    return p


class Verdicts:
    """Collects violations, separates known findings, prints the interface lines."""

    def __init__(self, prop):
        self.prop = prop
        self.known = load_known()
        self.new = []          # (key, payload)
        self.known_hits = {}   # id -> [count, what]
        self.notes = []
        self.inconclusive = 0

    def violation(self, key, payload):
        k = match_known(self.known, self.prop, key)
        if k is not None:
            e = self.known_hits.setdefault(k['id'], [0, k.get('what', '')])
            e[0] += 1
        else:
            self.new.append((key, payload))

    def note(self, msg):
        self.notes.append(msg)

    def finish(self, max_print=25):
        for fid, (n, what) in sorted(self.known_hits.items()):
            print('KNOWN-FINDING: property=%s %s [%s; %d case(s) this run]' % (self.prop, what, fid, n))
        for msg in self.notes[:50]:
            print('NOTE %s' % msg)
        seen = set()
        printed = 0
        for key, payload in self.new:
            sig = json.dumps(key, sort_keys=True, ensure_ascii=False, default=str)
            if sig in seen:
                continue
            seen.add(sig)
            if printed < max_print:
                p = write_replay(self.prop, {'property': self.prop, 'key': key, 'detail': payload})
                print('VIOLATION property=%s replay=%s' % (self.prop, p))
                print('  ' + sig[:400])
                printed += 1
        if len(seen) > printed:
            print('(%d further distinct violations not printed)' % (len(seen) - printed))
        return 1 if self.new else 0


# ---------------------------------------------------------------- evidence

def write_evidence(prop, tier, level, coverage, wall_s, violations, assumptions):
    os.makedirs(EVIDENCE, exist_ok=True)
    ev = {
        'property_id': prop,
        'tier': tier,
        'seed': seed(),
        'level': level,
        'coverage': coverage,
        'assumptions': assumptions,
        'wall_s': round(wall_s, 2),
        'violations': violations,
    }
    p = os.path.join(EVIDENCE, prop + '.json')
    tmp = p + '.tmp'
    with open(tmp, 'w', encoding='utf-8') as f:
        json.dump(ev, f, indent=1, ensure_ascii=False, default=str)
    os.replace(tmp, p)
    return p


STD_ASSUMPTIONS = [
    'TLC 1.8.0 and the CommunityModules Json/IOUtils overrides are correct',
    'the harness projection of result objects to flat JSON records (attribute reads only) is faithful',
]
SHIM_ASSUMPTION = ('datedelta / grapheme are absent from the sandbox; stand-ins under /verif/shims '
                   '(datedelta 1.4 semantics; grapheme.slice identity) are trusted')
