"""Advisory binding of mechanism models to the code: every initial state of a mech module is
replayed into the real function and the final state of the model is compared with what the code
returns.  A mismatch is mechanism drift (NOTE), never a verdict."""
import json

from . import tlc, pool


def merge_mech(work, V, n=5, cfgs=(('sweep', 'MC_Merge_sweep.cfg'), ('tokens', 'MC_Merge_tokens.cfg'), ('addto', 'MC_Merge_addto.cfg')), limit=4000):
    info = []
    for mech, cfg in cfgs:
        r = tlc.run(work, 'MergeMech', cfg=cfg, dump=True, timeout=900)
        if not r['ok']:
            V.note('mechanism-drift: MergeMech/%s violates %s at design level' % (cfg, r['violation']))
        finals = {}
        for st in tlc.read_dump(r['dump'], where='pc = "done"'):
            finals[json.dumps(st['input'])] = st['out']
        keys = sorted(finals)[:limit]
        cases = [{'api': 'mergemech', 'mech': mech, 'n': n, 'input': json.loads(k)} for k in keys]
        obs = pool.run_cases(cases, init_name='datetime', batch=200, timeout=20.0)
        drift = 0
        for k, o in zip(keys, obs):
            want = [list(x) for x in finals[k]]
            if o.get('out') != want:
                drift += 1
                if drift <= 2:
                    V.note('mechanism-drift: %s(%s): model %s, code %s' % (mech, k, want, o))
        info.append({'module': 'MergeMech', 'cfg': cfg, 'distinct_states': r['distinct'], 'violation': r['violation'], 'inputs_replayed_into_code': len(cases), 'drift': drift})
    r = tlc.run(work, 'MergeMech', cfg='MC_Merge_addto_prefix.cfg', timeout=600)
    info.append({'module': 'MergeMech', 'cfg': 'MC_Merge_addto_prefix.cfg (regression: add_to before the fix, a straddling candidate replaces what it covers)', 'distinct_states': r['distinct'],
                 'violation': r['violation'], 'expected_violation': 'AddDisjoint'})
    return info


def int_value(work, V, cfg='MC_IntValue.cfg', limit=6000):
    """IntValue.tla: model-check IntValue(Lex(Spell(n))) = n, then replay every written form into the real
    __get_matches / __get_int_value and compare token count and value (advisory)."""
    r = tlc.run(work, 'IntValue', cfg=cfg, dump=True, timeout=1200)
    if not r['ok']:
        V.note('mechanism-drift: IntValue/%s violates %s at design level' % (cfg, r['violation']))
    finals = {}
    for st in tlc.read_dump(r['dump'], where='pc = "done"'):
        finals[st['text']] = (len(st['toks']), st['val'])
    keys = sorted(finals)
    if len(keys) > limit:
        step = len(keys) / float(limit)
        keys = [keys[int(i * step)] for i in range(limit)]
    cases = [{'api': 'intvalue', 'text': k} for k in keys]
    obs = pool.run_cases(cases, init_name='number', batch=300, timeout=20.0)
    drift = 0
    for k, o in zip(keys, obs):
        want = finals[k]
        if (len(o.get('matches', [])), o.get('value')) != (want[0], str(want[1])):
            drift += 1
            if drift <= 2:
                V.note('mechanism-drift: __get_int_value(%r): model %s, code %s' % (k, want, o))
    return [{'module': 'IntValue', 'cfg': cfg, 'distinct_states': r['distinct'], 'violation': r['violation'], 'forms_replayed_into_code': len(cases), 'drift': drift}]


def choice_match(work, V):
    """ChoiceMatch.tla: the scoring loop of ChoiceExtractor.match_value.  The configuration with the real index_of
    (absent token 'found' at index 1) must violate ScoreInUnit, the one with a conventional -1 must not; every
    (source, match) pair of the model is replayed into the real match_value and the top scores are compared."""
    bad = tlc.run(work, 'ChoiceMatch', cfg='MC_ChoiceMatch.cfg', dump=True, extra=['-continue'], timeout=600)
    good = tlc.run(work, 'ChoiceMatch', cfg='MC_ChoiceMatch_fixed.cfg', timeout=600)
    finals = {}
    for st in tlc.read_dump(bad['dump']):
        if st['pc'] == 'raised':
            finals[json.dumps([st['src'], st['mat']])] = 'raised'
        elif st['pc'] == 'done':
            num, den = st['best']
            finals.setdefault(json.dumps([st['src'], st['mat']]), repr(round(0.0 if num == 0 else 0.4 + 0.6 * num / den, 9)))
    for k in list(finals):
        pass
    keys = sorted(finals)
    cases = [{'api': 'choicematch', 'src': json.loads(k)[0], 'mat': json.loads(k)[1]} for k in keys]
    obs = pool.run_cases(cases, init_name='choice', batch=200, timeout=20.0)
    drift = 0
    for k, o in zip(keys, obs):
        if o.get('top') != finals[k]:
            drift += 1
            if drift <= 2:
                V.note('mechanism-drift: match_value%s: model %s, code %s' % (k, finals[k], o))
    return [{'module': 'ChoiceMatch', 'cfg': 'MC_ChoiceMatch.cfg (index_of as written)', 'distinct_states': bad['distinct'], 'violation': bad['violation'], 'expected_violation': 'ScoreInUnit',
             'pairs_replayed_into_code': len(cases), 'drift': drift},
            {'module': 'ChoiceMatch', 'cfg': 'MC_ChoiceMatch_fixed.cfg', 'distinct_states': good['distinct'], 'violation': good['violation']}]


def select_candidates(work, V, n=8):
    """SelectCandidates.tla: model-check disjointness of the selected number-with-unit candidates for every layout of
    numbers and units, keep the pre-fix configuration as a regression that must fail, and replay every candidate list
    into the real _select_candidates."""
    r = tlc.run(work, 'SelectCandidates', cfg='MC_SelectCandidates.cfg', dump=True, timeout=900)
    if not r['ok']:
        V.note('mechanism-drift: SelectCandidates violates %s at design level' % r['violation'])
    old = tlc.run(work, 'SelectCandidates', cfg='MC_SelectCandidates_prefix.cfg', timeout=600)
    finals = {}
    for st in tlc.read_dump(r['dump'], where='phase = "done"'):
        finals[json.dumps(st['ers'], sort_keys=True)] = [[c['start'], c['length']] for c in st['out']]
    keys = sorted(finals)
    cases = [{'api': 'selectcands', 'n': n, 'ers': json.loads(k)} for k in keys]
    obs = pool.run_cases(cases, init_name='unit', batch=100, timeout=20.0)
    drift = 0
    for k, o in zip(keys, obs):
        if o.get('out') != finals[k]:
            drift += 1
            if drift <= 2:
                V.note('mechanism-drift: _select_candidates(%s): model %s, code %s' % (k, finals[k], o))
    return [{'module': 'SelectCandidates', 'cfg': 'MC_SelectCandidates.cfg', 'distinct_states': r['distinct'], 'violation': r['violation'], 'lists_replayed_into_code': len(cases), 'drift': drift},
            {'module': 'SelectCandidates', 'cfg': 'MC_SelectCandidates_prefix.cfg (inclusive ends, before the fix)', 'distinct_states': old['distinct'], 'violation': old['violation'], 'expected_violation': 'Disjoint'}]


def generate_dates(work, V):
    """GenerateDates.tla: the contract of OpenDate holds for midnight references (model-checked for every (month, day) x
    every day of two years); the configurations with a time of day and with the year 2096 must fail (design-level
    counterexamples: known finding F-C09-1, and 29 February next to a non-leap century year outside the property's range);
    a stride of the model's inputs is replayed into the real DateUtils.generate_dates."""
    ok = tlc.run(work, 'GenerateDates', cfg='MC_GenerateDates.cfg', timeout=1200)
    tod = tlc.run(work, 'GenerateDates', cfg='MC_GenerateDates_timeofday.cfg', timeout=600)
    y96 = tlc.run(work, 'GenerateDates', cfg='MC_GenerateDates_2096.cfg', timeout=600)
    b = tlc.run(work, 'GenerateDates', cfg='MC_GenerateDates_bind.cfg', dump=True, timeout=900)
    if not ok['ok']:
        V.note('mechanism-drift: GenerateDates violates %s for midnight references' % ok['violation'])
    cases, want = [], []
    for st in tlc.read_dump(b['dump'], where='pc = "done"'):
        cases.append({'api': 'generatedates', 'n': st['n'], 'tod': st['tod'], 'm': st['m'], 'd': st['d']})
        want.append(list(st['res']))
    obs = pool.run_cases(cases, init_name='datetime', batch=500, timeout=20.0)
    drift = 0
    for c, w, o in zip(cases, want, obs):
        if o.get('res') != w:
            drift += 1
            if drift <= 2:
                V.note('mechanism-drift: generate_dates(%s): model %s, code %s' % (c, w, o))
    return [{'module': 'GenerateDates', 'cfg': 'MC_GenerateDates.cfg', 'distinct_states': ok['distinct'], 'violation': ok['violation']},
            {'module': 'GenerateDates', 'cfg': 'MC_GenerateDates_timeofday.cfg', 'distinct_states': tod['distinct'], 'violation': tod['violation'], 'expected_violation': 'MeetsContract'},
            {'module': 'GenerateDates', 'cfg': 'MC_GenerateDates_2096.cfg', 'distinct_states': y96['distinct'], 'violation': y96['violation'], 'expected_violation': 'MeetsContract'},
            {'module': 'GenerateDates', 'cfg': 'MC_GenerateDates_bind.cfg', 'distinct_states': b['distinct'], 'inputs_replayed_into_code': len(cases), 'drift': drift}]


def rel_period(work, V):
    """RelPeriodMech.tla: the week / month / year branches of _parse_one_word_period meet the contract of RelDate for
    every reference day of five years; the pre-fix month shift must fail; the weekend branch (outside C08) fails
    WeekendIsoYear (calendar year instead of the ISO week-year in the TIMEX).  Every (day, shift, unit) of two years is
    replayed into recognize_datetime ("this|next|last week|weekend|month|year") and compared with the model's result."""
    import datetime
    ok = tlc.run(work, 'RelPeriodMech', cfg='MC_RelPeriod.cfg', timeout=900)
    old = tlc.run(work, 'RelPeriodMech', cfg='MC_RelPeriod_prefix.cfg', timeout=600)
    we = tlc.run(work, 'RelPeriodMech', cfg='MC_RelPeriod_weekend.cfg', timeout=600)
    b = tlc.run(work, 'RelPeriodMech', cfg='MC_RelPeriod_bind.cfg', dump=True, timeout=900)
    if not ok['ok']:
        V.note('mechanism-drift: RelPeriodMech violates %s' % ok['violation'])
    word = {-1: 'last', 0: 'this', 1: 'next'}
    iso = lambda n: datetime.date.fromordinal(n).isoformat()
    cases, want = [], []
    for st in tlc.read_dump(b['dump'], where='pc = "done"'):
        cases.append({'api': 'datetime', 'text': '%s %s' % (word[st['swift']], st['unit']), 'culture': 'en-us',
                      'ref': iso(st['n']) + 'T00:00:00'})
        want.append({'timex': st['res']['timex'], 'start': iso(st['res']['start']), 'end': iso(st['res']['end'])})
    obs = pool.run_cases(cases, init_name='datetime', batch=200, timeout=20.0)
    drift = 0
    for c, w, o in zip(cases, want, obs):
        got = None
        ents = o.get('ents') or []
        if len(ents) == 1 and len(ents[0]['res'].get('values', [])) == 1:
            v = ents[0]['res']['values'][0]
            got = {'timex': v.get('timex'), 'start': v.get('start'), 'end': v.get('end')}
        if got != w:
            drift += 1
            if drift <= 2:
                V.note('mechanism-drift: "%s" at %s: model %s, code %s' % (c['text'], c['ref'], w, got if got else o))
    return [{'module': 'RelPeriodMech', 'cfg': 'MC_RelPeriod.cfg', 'distinct_states': ok['distinct'], 'violation': ok['violation']},
            {'module': 'RelPeriodMech', 'cfg': 'MC_RelPeriod_prefix.cfg (month shifted from the reference day, before the fix)', 'distinct_states': old['distinct'], 'violation': old['violation'], 'expected_violation': 'MeetsContract'},
            {'module': 'RelPeriodMech', 'cfg': 'MC_RelPeriod_weekend.cfg (outside C08: weekend TIMEX year)', 'distinct_states': we['distinct'], 'violation': we['violation'], 'expected_violation': 'WeekendIsoYear'},
            {'module': 'RelPeriodMech', 'cfg': 'MC_RelPeriod_bind.cfg', 'distinct_states': b['distinct'], 'inputs_replayed_into_code': len(cases), 'drift': drift}]


def add_mod(work, V, limit=6000):
    """AddMod.tla: ChineseMergedExtractor.add_mod keeps text = slice, bounds and disjointness for every query of up to
    five stand-in words; the transcription of the code before the fix must fail; a counterexample outside the listed
    properties (a prefix modifier swallows whatever lies between it and the entity) is kept as MC_AddMod_adjacent.
    Every initial state of the bind configuration is replayed into the real add_mod."""
    ok = tlc.run(work, 'AddMod', cfg='MC_AddMod.cfg', dump=True, timeout=1200)
    old = tlc.run(work, 'AddMod', cfg='MC_AddMod_prefix.cfg', timeout=600)
    adj = tlc.run(work, 'AddMod', cfg='MC_AddMod_adjacent.cfg', timeout=600)
    unb = tlc.run(work, 'AddMod', cfg='MC_AddMod_unbounded.cfg', timeout=600)
    if not ok['ok']:
        V.note('mechanism-drift: AddMod violates %s' % ok['violation'])
    inits, finals = {}, {}
    for st in tlc.read_dump(ok['dump']):
        if st['pc'] == 'loop' and st['k'] == 1:
            inits[st['src']] = st['ents']
        elif st['pc'] == 'done':
            finals[st['src']] = st['ents']
    keys = sorted(inits)
    step = max(1, len(keys) // limit)
    keys = keys[::step]
    cases = [{'api': 'addmod', 'src': k, 'ents': [{'start': e['start'], 'length': e['length']} for e in inits[k]]} for k in keys]
    obs = pool.run_cases(cases, init_name='datetime', batch=300, timeout=20.0)
    drift = 0
    for k, o in zip(keys, obs):
        want = [[e['start'], e['length'], True] for e in finals[k]]
        if o.get('out') != want:
            drift += 1
            if drift <= 2:
                V.note('mechanism-drift: add_mod(%r): model %s, code %s' % (k, want, o))
    return [{'module': 'AddMod', 'cfg': 'MC_AddMod.cfg', 'distinct_states': ok['distinct'], 'violation': ok['violation'], 'queries_replayed_into_code': len(cases), 'drift': drift},
            {'module': 'AddMod', 'cfg': 'MC_AddMod_prefix.cfg (add_mod before the fix)', 'distinct_states': old['distinct'], 'violation': old['violation'], 'expected_violation': 'InBounds or TextIsSlice'},
            {'module': 'AddMod', 'cfg': 'MC_AddMod_unbounded.cfg (suffix modifiers searched beyond the next entity, before the second fix)', 'distinct_states': unb['distinct'], 'violation': unb['violation'], 'expected_violation': 'Disjoint'},
            {'module': 'AddMod', 'cfg': 'MC_AddMod_adjacent.cfg (outside the listed properties)', 'distinct_states': adj['distinct'], 'violation': adj['violation'], 'expected_violation': 'OnlyAdjacent'}]


def digital_value(work, V, tier='thorough'):
    """DigitalValue.tla: _get_digital_value evaluates every literal written with the culture's own marks to the number
    written (all strings of up to six characters over {0,1,2,',','.','-'} x en-us, es-es, es-mx, de-de; strings of up
    to eight characters over {0,1,',','-'} for en-us); the transcription of the code before the sign fix must fail.
    Every input of the bind configuration (up to five characters, 4 cultures) is evaluated by the real function."""
    if tier == 'quick':      # the bind configuration (five characters) carries the same invariant
        ok = lng = {'ok': True, 'distinct': 0, 'violation': None}
    else:
        ok = tlc.run(work, 'DigitalValue', cfg='MC_DigitalValue.cfg', timeout=1800)
        lng = tlc.run(work, 'DigitalValue', cfg='MC_DigitalValue_long.cfg', timeout=1800)
    old = tlc.run(work, 'DigitalValue', cfg='MC_DigitalValue_prefix.cfg', timeout=1800)
    b = tlc.run(work, 'DigitalValue', cfg='MC_DigitalValue_bind.cfg', dump=True, timeout=1800)
    for r, name in ((ok, 'MC_DigitalValue'), (lng, 'MC_DigitalValue_long'), (b, 'MC_DigitalValue_bind')):
        if not r['ok']:
            V.note('mechanism-drift: DigitalValue/%s violates %s' % (name, r['violation']))
    by = {}
    for st in tlc.read_dump(b['dump'], where='pc = "done"'):
        by.setdefault(st['cul'], []).append((st['s'], [st['neg'] and (st['int'] != 0 or st['frac'] != 0), st['int'], st['frac']]))
    cases, want = [], []
    for cul in sorted(by):
        items = sorted(by[cul])
        for i in range(0, len(items), 500):
            cases.append({'api': 'digitalvalue', 'culture': cul, 'texts': [t for t, _ in items[i:i + 500]]})
            want.append(items[i:i + 500])
    obs = pool.run_cases(cases, init_name='number', batch=2, timeout=60.0)
    drift = n = 0
    for c, w, o in zip(cases, want, obs):
        got = o.get('out') or []
        for (t, exp), g in zip(w, got + [None] * (len(w) - len(got))):
            n += 1
            if g != exp:
                drift += 1
                if drift <= 3:
                    V.note('mechanism-drift: _get_digital_value(%r, %s): model %s, code %s' % (t, c['culture'], exp, g))
    full = [] if tier == 'quick' else [
            {'module': 'DigitalValue', 'cfg': 'MC_DigitalValue.cfg', 'distinct_states': ok['distinct'], 'violation': ok['violation']},
            {'module': 'DigitalValue', 'cfg': 'MC_DigitalValue_long.cfg', 'distinct_states': lng['distinct'], 'violation': lng['violation']}]
    return full + [
            {'module': 'DigitalValue', 'cfg': 'MC_DigitalValue_prefix.cfg (sign counted in the distance to a separator, before the fix)', 'distinct_states': old['distinct'], 'violation': old['violation'], 'expected_violation': 'MeetsLiteral'},
            {'module': 'DigitalValue', 'cfg': 'MC_DigitalValue_bind.cfg', 'distinct_states': b['distinct'], 'violation': b['violation'], 'strings_evaluated_by_code': n, 'drift': drift}]


def cjk_int_value(work, V, tier='thorough'):
    """CJKIntValue.tla: get_int_value evaluates the standard written form of n to n (and the colloquial short forms to
    what they mean); every written form of the configuration is evaluated by the real function of the zh-cn parser."""
    cfg = 'MC_CJKIntValue_quick.cfg' if tier == 'quick' else 'MC_CJKIntValue.cfg'
    r = tlc.run(work, 'MC_CJKIntValue', cfg=cfg, dump=True, timeout=1800)
    if not r['ok']:
        V.note('mechanism-drift: CJKIntValue/%s violates %s' % (cfg, r['violation']))
    finals = {}
    for st in tlc.read_dump(r['dump'], where='pc = "done"'):
        finals[st['inp']['text']] = st['intV']
    keys = sorted(finals)
    cases = [{'api': 'cjkint', 'culture': 'zh-cn', 'texts': keys[i:i + 500]} for i in range(0, len(keys), 500)]
    obs = pool.run_cases(cases, init_name='number', batch=2, timeout=60.0)
    drift = n = 0
    for c, o in zip(cases, obs):
        got = o.get('out') or []
        for t, g in zip(c['texts'], got + [None] * (len(c['texts']) - len(got))):
            n += 1
            if g != finals[t]:
                drift += 1
                if drift <= 3:
                    V.note('mechanism-drift: get_int_value(%r): model %s, code %s' % (t, finals[t], g))
    return [{'module': 'CJKIntValue', 'cfg': cfg, 'distinct_states': r['distinct'], 'violation': r['violation'], 'written_forms_evaluated_by_code': n, 'drift': drift}]


def mod_push_pop(work, V):
    """ModPushPop.tla: the modifier push / pop of BaseMergedParser.parse restores start, length and text for every entity
    text made of (before|after|since|=)? (around)? entity with one or two blanks; the variant without the around reset in
    the since block must fail; every input is parsed by the real English merged parser and compared."""
    ok = tlc.run(work, 'ModPushPop', cfg='MC_ModPushPop.cfg', dump=True, timeout=600)
    bad = tlc.run(work, 'ModPushPop', cfg='MC_ModPushPop_noreset.cfg', timeout=600)
    if not ok['ok']:
        V.note('mechanism-drift: ModPushPop violates %s' % ok['violation'])
    finals = {}
    for st in tlc.read_dump(ok['dump'], where='pc = "done"'):
        finals[(st['inp']['text'], st['inp']['start'])] = [st['res']['start'], st['res']['length'], st['res']['text']]
    keys = sorted(finals)
    cases = [{'api': 'modpushpop', 'items': [{'text': t, 'start': s0} for t, s0 in keys]}]
    obs = pool.run_cases(cases, init_name='datetime', batch=1, timeout=120.0)
    got = obs[0].get('out') or []
    drift = 0
    for k, g in zip(keys, got + [None] * (len(keys) - len(got))):
        # the code returns a value only when the inner parser understands the stripped entity; compare when it does
        if isinstance(g, list) and g[3] and g[:3] != finals[k]:
            drift += 1
            if drift <= 3:
                V.note('mechanism-drift: BaseMergedParser.parse(%r at %d): model %s, code %s' % (k[0], k[1], finals[k], g))
    parsed = sum(1 for g in got if isinstance(g, list) and g[3])
    return [{'module': 'ModPushPop', 'cfg': 'MC_ModPushPop.cfg', 'distinct_states': ok['distinct'], 'violation': ok['violation'], 'entities_parsed_by_code': parsed, 'of': len(keys), 'drift': drift},
            {'module': 'ModPushPop', 'cfg': 'MC_ModPushPop_noreset.cfg (around flag not cleared in the since block)', 'distinct_states': bad['distinct'], 'violation': bad['violation'], 'expected_violation': 'Restored'}]


def drop_zeros(work, V, tier='thorough'):
    """DropZeros.tla: drop_leading_zeros keeps separators and group values and writes no leading zero, for every string of
    up to six characters over {0,1,a,A,.,:}; every string of up to five characters is evaluated by the real function."""
    ok = {'ok': True, 'distinct': 0, 'violation': None} if tier == 'quick' else tlc.run(work, 'DropZeros', cfg='MC_DropZeros.cfg', timeout=1800)
    b = tlc.run(work, 'DropZeros', cfg='MC_DropZeros_bind.cfg', dump=True, timeout=900)
    for r, name in ((ok, 'MC_DropZeros'), (b, 'MC_DropZeros_bind')):
        if not r['ok']:
            V.note('mechanism-drift: DropZeros/%s violates %s' % (name, r['violation']))
    finals = {}
    for st in tlc.read_dump(b['dump'], where='pc = "done"'):
        finals[st['text']] = st['result']
    keys = sorted(finals)
    obs = pool.run_cases([{'api': 'dropzeros', 'texts': keys}], init_name='sequence', batch=1, timeout=120.0)
    got = obs[0].get('out') or []
    drift = 0
    for k, g in zip(keys, got + [None] * (len(keys) - len(got))):
        if g != finals[k]:
            drift += 1
            if drift <= 3:
                V.note('mechanism-drift: drop_leading_zeros(%r): model %r, code %r' % (k, finals[k], g))
    out = [] if tier == 'quick' else [{'module': 'DropZeros', 'cfg': 'MC_DropZeros.cfg', 'distinct_states': ok['distinct'], 'violation': ok['violation']}]
    return out + [{'module': 'DropZeros', 'cfg': 'MC_DropZeros_bind.cfg', 'distinct_states': b['distinct'], 'violation': b['violation'], 'strings_evaluated_by_code': len(keys), 'drift': drift}]


def preprocess(work, V, tier='thorough'):
    """Preprocess.tla: QueryProcessor.preprocess keeps every code point position (recode, length-preserving lower-casing,
    unit letters restored for the case-sensitive models) for every string of up to five characters over the stand-in
    alphabet; the plain str.lower() of the code before the fix must fail; every string of up to four characters x both
    modes is processed by the real function."""
    ok = {'ok': True, 'distinct': 0, 'violation': None} if tier == 'quick' else tlc.run(work, 'Preprocess', cfg='MC_Preprocess.cfg', timeout=1800)
    old = tlc.run(work, 'Preprocess', cfg='MC_Preprocess_prefix.cfg', timeout=600)
    b = tlc.run(work, 'Preprocess', cfg='MC_Preprocess_bind.cfg', dump=True, timeout=900)
    for r, name in ((ok, 'MC_Preprocess'), (b, 'MC_Preprocess_bind')):
        if not r['ok']:
            V.note('mechanism-drift: Preprocess/%s violates %s' % (name, r['violation']))
    finals = {}
    for st in tlc.read_dump(b['dump'], where='pc = "done"'):
        finals[(st['src'], st['sensitive'])] = st['out']
    keys = sorted(finals)
    obs = pool.run_cases([{'api': 'preprocess', 'items': [[t, sv] for t, sv in keys]}], init_name='text', batch=1, timeout=120.0)
    got = obs[0].get('out') or []
    drift = 0
    for k, g in zip(keys, got + [None] * (len(keys) - len(got))):
        if g != finals[k]:
            drift += 1
            if drift <= 3:
                V.note('mechanism-drift: preprocess(%r, case_sensitive=%s): model %r, code %r' % (k[0], k[1], finals[k], g))
    out = [] if tier == 'quick' else [{'module': 'Preprocess', 'cfg': 'MC_Preprocess.cfg', 'distinct_states': ok['distinct'], 'violation': ok['violation']}]
    return out + [{'module': 'Preprocess', 'cfg': 'MC_Preprocess_prefix.cfg (plain str.lower(), before the fix)', 'distinct_states': old['distinct'], 'violation': old['violation'], 'expected_violation': 'SameLength'},
                  {'module': 'Preprocess', 'cfg': 'MC_Preprocess_bind.cfg', 'distinct_states': b['distinct'], 'violation': b['violation'], 'strings_processed_by_code': len(keys), 'drift': drift}]


_CM_TEXT = {'U': '3 us dollars', 'R': '4 euros', 'C': '50 cents', 'E': '20 pence', 'N': '7'}
_CM_UNIT = {'U': 'United States dollar', 'R': 'Euro', 'C': 'Cent', 'E': 'Pence'}


def compound_merge(work, V):
    """CompoundMerge.tla: the grouping loop of BaseCurrencyParser.__merge_compound_unit terminates, keeps text order, puts
    every currency amount in exactly one group and adds fraction / bare amounts as hundredths (all item sequences of up to
    five items); every sequence of up to four items is written out ("3 us dollars 50 cents 7 ...", blanks and one "and")
    and recognised by recognize_currency; groups, units and values are compared with the model."""
    ok = tlc.run(work, 'CompoundMerge', cfg='MC_CompoundMerge.cfg', timeout=900)
    b = tlc.run(work, 'CompoundMerge', cfg='MC_CompoundMerge_bind.cfg', dump=True, timeout=900)
    for r, name in ((ok, 'MC_CompoundMerge'), (b, 'MC_CompoundMerge_bind')):
        if not r['ok']:
            V.note('mechanism-drift: CompoundMerge/%s violates %s' % (name, r['violation']))
    finals = {}
    for st in tlc.read_dump(b['dump'], where='pc = "done"'):
        finals[tuple(st['items'])] = st['outs']
    cases, meta = [], []
    for items in sorted(finals):
        if any(a == 'N' and b == 'N' for a, b in zip(items, items[1:])):
            continue      # the extractor hands over at most one bare number after an amount (its business, not the loop's)
        for conn in (' ', ' and '):
            if conn == ' and ' and len(items) < 2:
                continue
            parts = [_CM_TEXT[k] for k in items]
            starts, text = [], ''
            for n, ptxt in enumerate(parts):
                if n:
                    text += conn if n == 1 else ' '
                starts.append(len(text))
                text += ptxt
            cases.append({'api': 'currency', 'culture': 'en-us', 'text': text})
            meta.append((items, starts, [len(x) for x in parts]))
    obs = pool.run_cases(cases, init_name='unit', batch=100, timeout=20.0)
    drift = 0
    for c, (items, starts, lens), o in zip(cases, meta, obs):
        want = []
        for g in finals[items]:
            f, l = g['first'] - 1, g['last'] - 1
            val = g['val']
            sval = ('%d' % (val // 100)) if val % 100 == 0 else ('%d.%02d' % (val // 100, val % 100)).rstrip('0')
            want.append([starts[f], starts[l] + lens[l] - 1, sval, _CM_UNIT[g['main']]])
        got = [[e['s'], e['e'], e['res'].get('value'), e['res'].get('unit')] for e in (o.get('ents') or [])]
        if got != want:
            drift += 1
            if drift <= 3:
                V.note('mechanism-drift: recognize_currency(%r): model %s, code %s' % (c['text'], want, got))
    return [{'module': 'CompoundMerge', 'cfg': 'MC_CompoundMerge.cfg', 'distinct_states': ok['distinct'], 'violation': ok['violation']},
            {'module': 'CompoundMerge', 'cfg': 'MC_CompoundMerge_bind.cfg', 'distinct_states': b['distinct'], 'violation': b['violation'], 'texts_recognised_by_code': len(cases), 'drift': drift}]
