"""Worker pool that calls into /repo's packages under a per-call watchdog.

Each worker process imports the library once.  The parent sends small batches; the worker
streams one reply per case; if no reply arrives within `timeout` seconds the worker is killed,
the case is recorded as {'timeout': True} and the rest of the batch is re-queued."""
import multiprocessing as mp
import multiprocessing.connection as mpc
import os
import sys
import time
import traceback

from . import common


def _worker(conn, init_name):
    common.setup_sys_path()
    os.environ[common.GUARD] = '1'
    from . import drivers
    try:
        drivers.init(init_name)
    except Exception:
        conn.send(('fatal', traceback.format_exc()))
        return
    conn.send(('ready', None))
    while True:
        msg = conn.recv()
        if msg is None:
            return
        for idx, case in msg:
            try:
                obs = drivers.run_case(case)
            except Exception as ex:  # exception is an observation, not a crash
                obs = {'exception': type(ex).__name__, 'message': str(ex)[:300]}
            conn.send(('obs', idx, obs))
        conn.send(('batch_done', None))


class _W:
    def __init__(self, ctx, init_name):
        self.parent, child = ctx.Pipe()
        self.proc = ctx.Process(target=_worker, args=(child, init_name), daemon=True)
        self.proc.start()
        child.close()
        self.batch = []
        self.pos = 0
        self.last = time.time()
        self.ready = False

    def kill(self):
        try:
            self.proc.kill()
            self.proc.join(2)
        except Exception:
            pass
        try:
            self.parent.close()
        except Exception:
            pass


def run_cases(cases, init_name='all', nproc=None, timeout=10.0, batch=20, start_timeout=120.0, progress=None, groups=None):
    """Run every case through drivers.run_case in worker processes. Returns list of observations
    aligned with `cases`.  `groups`: lists of case indices; each group is run in the given order by one worker
    process without interruption (histories on one set of cached models); otherwise cases go out in batches."""
    n = len(cases)
    results = [None] * n
    if n == 0:
        return results
    ctx = mp.get_context('fork')
    if groups is not None:
        gqueue = [list(g) for g in groups if g]
        gqueue.reverse()
        nproc = max(1, min(nproc or common.NPROC, len(gqueue)))
        queue = []
    else:
        gqueue = None
        nproc = max(1, min(nproc or common.NPROC, (n + batch - 1) // batch))
        queue = list(range(n))
        queue.reverse()
    workers = [_W(ctx, init_name) for _ in range(nproc)]
    done = 0
    t_report = time.time()

    def feed(w):
        if not queue and not gqueue:
            w.batch = []
            return False
        b = []
        if queue or gqueue is None:
            while queue and len(b) < batch:
                b.append(queue.pop())
        else:
            b = gqueue.pop()
        w.batch, w.pos, w.last = b, 0, time.time()
        w.parent.send([(i, cases[i]) for i in b])
        return True

    active = set(range(len(workers)))
    try:
        while active:
            conns = {workers[i].parent: i for i in active}
            ready = mpc.wait(list(conns), timeout=0.5)
            now = time.time()
            for c in ready:
                wi = conns[c]
                w = workers[wi]
                try:
                    while c.poll():
                        msg = c.recv()
                        w.last = now
                        if msg[0] == 'ready':
                            w.ready = True
                            if not feed(w):
                                w.parent.send(None)
                                active.discard(wi)
                        elif msg[0] == 'fatal':
                            sys.stderr.write('MACHINERY: worker failed to initialise:\n%s\n' % msg[1])
                            raise SystemExit(2)
                        elif msg[0] == 'obs':
                            results[msg[1]] = msg[2]
                            w.pos += 1
                            done += 1
                        elif msg[0] == 'batch_done':
                            if not feed(w):
                                w.parent.send(None)
                                active.discard(wi)
                                break
                except (EOFError, OSError):
                    # worker died (e.g. segfault in a C extension): treat like a timeout
                    w.last = -1e9
            for wi in list(active):
                w = workers[wi]
                limit = timeout if w.ready else start_timeout
                if now - w.last > limit:
                    if w.ready and w.batch and w.pos < len(w.batch):
                        bad = w.batch[w.pos]
                        results[bad] = {'timeout': True}
                        done += 1
                        for i in reversed(w.batch[w.pos + 1:]):
                            queue.append(i)
                    elif not w.ready:
                        sys.stderr.write('MACHINERY: worker did not start within %ss\n' % start_timeout)
                        raise SystemExit(2)
                    w.kill()
                    if queue or gqueue:
                        workers[wi] = _W(ctx, init_name)
                    else:
                        active.discard(wi)
            if progress and now - t_report > 30:
                t_report = now
                sys.stderr.write('  .. %s: %d/%d\n' % (progress, done, n))
    finally:
        for w in workers:
            w.kill()
    for i in range(n):
        if results[i] is None:
            results[i] = {'timeout': True}
    return results
