"""Instrumentation (harness side, no repo change) of the process-wide model cache:
 * every constructor registered through ModelFactory.register_model is wrapped so that each
   model it builds is tagged with (model type, culture, options) and a sequential id;
 * ModelFactory.__cache is replaced by a dict that logs get / set with a global sequence number
   taken under one lock: the linearisation points of the shared state."""
import threading

LOCK = threading.RLock()
STATE = {'seq': 0, 'events': None, 'tags': {}, 'models': [], 'tid': {}, 'installed': False, 'gate': None}


def _tid():
    ident = threading.get_ident()
    with LOCK:
        m = STATE['tid']
        if ident not in m:
            m[ident] = len(m) + 1
        return m[ident]


def emit(op, **kw):
    ev = STATE['events']
    if ev is None:
        return
    with LOCK:
        STATE['seq'] += 1
        kw.update(seq=STATE['seq'], op=op, t=_tid())
        ev.append(kw)


def model_id(model):
    with LOCK:
        tag = STATE['tags'].get(id(model))
        return tag['id'] if tag else 0


def tag_of(model):
    with LOCK:
        return STATE['tags'].get(id(model))


class LoggingDict(dict):
    def get(self, key, default=None):
        with LOCK:
            v = dict.get(self, key, default)
            emit('get', key=_key(key), hit=v is not None, model=model_id(v) if v is not None else 0)
            return v

    def __setitem__(self, key, value):
        with LOCK:
            dict.__setitem__(self, key, value)
            emit('set', key=_key(key), model=model_id(value))


def _key(k):
    cul = k.culture if k.culture else '<none>'
    return [str(k.model_type), str(cul), int(k.options)]


def install():
    """Idempotent.  Wraps ModelFactory.register_model and swaps the cache dict."""
    if STATE['installed']:
        return
    from recognizers_text.model import ModelFactory
    orig_register = ModelFactory.register_model

    def register_model(self, model_type_name, culture, model_ctor):
        def ctor(options, _c=model_ctor, _t=model_type_name, _cu=culture):
            gate = STATE['gate']
            if gate:
                gate('build_enter')
            m = _c(options)
            with LOCK:
                mid = len(STATE['models']) + 1
                STATE['models'].append(m)          # keep alive: id() stays unique
                STATE['tags'][id(m)] = {'id': mid, 'type': str(_t), 'culture': str(_cu), 'opt': int(options)}
                emit('build', key=[str(_t), str(_cu), int(options)], model=mid)
            if gate:
                gate('build_exit')
            return m
        return orig_register(self, model_type_name, culture, ctor)

    ModelFactory.register_model = register_model
    ModelFactory._ModelFactory__cache = LoggingDict()
    STATE['installed'] = True


def reset(record=True):
    """Cold start: empty cache, forget models, start a new event list."""
    from recognizers_text.model import ModelFactory
    with LOCK:
        dict.clear(ModelFactory._ModelFactory__cache)
        # tags are never forgotten: a model that outlives the cache (some other memo in the
        # code under test) must still be identifiable when it is returned later
        STATE['tid'].clear()
        STATE['seq'] = 0
        STATE['events'] = [] if record else None


def clear_cache_only():
    from recognizers_text.model import ModelFactory
    with LOCK:
        dict.clear(ModelFactory._ModelFactory__cache)


def registered(L):
    """(model type, culture) pairs and valid option values per model type, from the running
    configuration of the five recognisers."""
    fams = families(L)
    pairs, valid, fam_of = [], {}, {}
    for fam, (cls, optcls, hi) in fams.items():
        r = cls(None, optcls(0), True)
        for k in r.model_factory.model_factories:
            pairs.append([str(k.model_type), str(k.culture)])
            valid[str(k.model_type)] = list(range(0, hi + 1))
            fam_of[str(k.model_type)] = fam
    return pairs, valid, fam_of


def families(L):
    out = {}
    from recognizers_number.number.number_recognizer import NumberRecognizer, NumberOptions
    out['number'] = (NumberRecognizer, NumberOptions, 0)
    from recognizers_number_with_unit.number_with_unit.number_with_unit_recognizer import NumberWithUnitRecognizer, NumberWithUnitOptions
    out['unit'] = (NumberWithUnitRecognizer, NumberWithUnitOptions, 0)
    from recognizers_date_time.date_time.date_time_recognizer import DateTimeRecognizer
    from recognizers_date_time.date_time.utilities import DateTimeOptions
    out['datetime'] = (DateTimeRecognizer, DateTimeOptions, 4)
    from recognizers_sequence.sequence.sequence_recognizer import SequenceRecognizer, SequenceOptions
    out['sequence'] = (SequenceRecognizer, SequenceOptions, 0)
    from recognizers_choice.choice.recognizers_choice import ChoiceRecognizer, ChoiceOptions
    out['choice'] = (ChoiceRecognizer, ChoiceOptions, 0)
    return out


def do_request(L, fam_of, r, shared=None):
    """One model request through the public recogniser API; returns the observation record.
    `shared`: a dict of long-lived recogniser objects, one per (family, options), reused for every later request
    of the history (a request with an explicit culture code behaves the same on any recogniser object)."""
    fams = families(L)
    cls, optcls, _ = fams[fam_of[r['type']]]
    code = None if r['code'] == '<none>' else r['code']
    emit('call', req=r)
    try:
        sk = (fam_of[r['type']], r['opt'])
        if shared is not None and code is not None and sk in shared:
            rec = shared[sk]
        else:
            rec = cls(code, optcls(r['opt']) if 0 <= r['opt'] <= fams[fam_of[r['type']]][2] else r['opt'])
            if shared is not None and code is not None:
                shared[sk] = rec
        m = rec.get_model(r['type'], code, r['fb'])
    except Exception as ex:
        emit('raise', exception=type(ex).__name__)
        return {'kind': 'error', 'exception': type(ex).__name__}, None
    tag = tag_of(m)
    if tag:
        emit('ret', model=tag['id'], tag={'type': tag['type'], 'culture': tag['culture'], 'opt': tag['opt']})
    else:
        emit('ret', model=0)
    if tag is None:
        return {'kind': 'model', 'type': '?', 'culture': '?', 'opt': -1, 'untagged': True}, m
    return {'kind': 'model', 'type': tag['type'], 'culture': tag['culture'], 'opt': tag['opt']}, m


def finalize(events):
    """Renumber model ids per trace: the k-th constructor run of this trace gets id k; a model
    built before the trace started (it survived the cold reset in some cache of the code under
    test) gets id 0 and is identified by the tag carried in its 'ret' event."""
    local = {}
    for e in events:
        if e['op'] == 'build':
            local[e['model']] = len(local) + 1
    for e in events:
        if 'model' in e:
            e['model'] = local.get(e['model'], 0)
    return events
