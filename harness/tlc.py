"""Run TLC / SANY and read what they print.  Exit code 2 (machinery) on tool failure."""
import json
import os
import re
import subprocess
import sys
import time

from . import common

JAR = '/opt/veriftools/tla/tla2tools.jar'
DEPS = '/opt/veriftools/tla/CommunityModules-deps.jar'
JAVA_OPTS = ['-XX:+UseParallelGC', '-Dfile.encoding=UTF-8', '-Dsun.jnu.encoding=UTF-8']


class TLCError(Exception):
    pass


def _module_path_dirs():
    dirs = []
    for root, ds, fs in os.walk(common.SPEC):
        if any(f.endswith('.tla') for f in fs):
            dirs.append(root)
    return dirs


def stage(work, files):
    """Copy all spec modules flat into a work directory (TLC resolves EXTENDS in cwd)."""
    import shutil
    os.makedirs(work, exist_ok=True)
    for d in _module_path_dirs():
        for f in os.listdir(d):
            if f.endswith('.tla') or f.endswith('.cfg') or f.endswith('.json'):
                shutil.copy(os.path.join(d, f), os.path.join(work, f))
    for name, content in (files or {}).items():
        with open(os.path.join(work, name), 'w', encoding='utf-8') as fh:
            fh.write(content)
    return work


def run(work, module, cfg=None, workers=None, env=None, timeout=3600, dump=False, simulate=None,
        depth=None, seed=None, coverage=False, heap='6g', deadlock=False, extra=None, tag=None):
    """Run TLC on work/module.tla with work/cfg. Returns dict with counts, printed values, ok/violation."""
    cfg = cfg or (module + '.cfg')
    tag = tag or cfg.replace('.cfg', '')
    meta = os.path.join(work, 'md_' + tag)
    # TLC's scratch directories (tlc-<n>) go under the work directory, which is removed at the end of the run
    cmd = ['java', '-Xmx' + heap, '-Djava.io.tmpdir=' + work] + JAVA_OPTS + ['-cp', JAR + ':' + DEPS, 'tlc2.TLC',
           '-workers', str(workers or common.NPROC), '-metadir', meta, '-noGenerateSpecTE',
           '-config', cfg]
    if deadlock:
        cmd += ['-deadlock']
    if coverage:
        cmd += ['-coverage', '1']
    dump_path = None
    if dump:
        dump_path = os.path.join(work, tag + '_states')
        cmd += ['-dump', dump_path]
        dump_path += '.dump'
    if simulate:
        cmd += ['-simulate', simulate]
    if depth:
        cmd += ['-depth', str(depth)]
    if seed is not None:
        cmd += ['-seed', str(seed)]
    cmd += list(extra or [])
    cmd += [module + '.tla']
    e = dict(os.environ)
    e.update(env or {})
    e['LC_ALL'] = 'C.UTF-8'
    t0 = time.time()
    try:
        p = subprocess.run(cmd, cwd=work, env=e, stdout=subprocess.PIPE, stderr=subprocess.STDOUT,
                           timeout=timeout)
        out = p.stdout.decode('utf-8', 'replace')
        rc = p.returncode
    except subprocess.TimeoutExpired as ex:
        out = (ex.stdout or b'').decode('utf-8', 'replace')
        rc = -9
    res = parse_output(out)
    res['rc'] = rc
    res['wall_s'] = time.time() - t0
    res['dump'] = dump_path
    res['cmd'] = ' '.join(cmd[:3] + ['...'] + cmd[-6:])
    res['out'] = out
    import shutil
    shutil.rmtree(meta, ignore_errors=True)
    return res


_re_states = re.compile(r'(\d+) states generated, (\d+) distinct states found')
_re_depth = re.compile(r'The depth of the complete state graph search is (\d+)')
_re_sim = re.compile(r'The number of states generated: (\d+)')


def parse_output(out):
    res = {'generated': 0, 'distinct': 0, 'depth': 0, 'ok': False, 'violation': None,
           'prints': [], 'errors': []}
    for m in _re_states.finditer(out):
        res['generated'], res['distinct'] = int(m.group(1)), int(m.group(2))
    m = _re_depth.search(out)
    if m:
        res['depth'] = int(m.group(1))
    m = _re_sim.search(out)
    if m and not res['generated']:
        res['generated'] = int(m.group(1))
    if 'Model checking completed. No error has been found.' in out:
        res['ok'] = True
    if 'Error: Invariant' in out or 'is violated' in out:
        m = re.search(r'Error: (?:Invariant|Action property|Temporal properties?) ?(\S*) (?:is|were) violated', out)
        res['violation'] = m.group(1) if m else 'unknown'
    for line in out.splitlines():
        if line.startswith('Error:') or 'Exception' in line or line.startswith('***Parse Error***'):
            res['errors'].append(line)
    res['prints'] = extract_prints(out)
    return res


def extract_prints(out):
    """Values printed by PrintT(<<"TAG", ...>>): returned as parsed TLA+ values."""
    vals = []
    for m in re.finditer(r'^<<\s*"', out, flags=re.M):
        try:
            v, k = parse_value(out, m.start())
            vals.append(v)
        except Exception:
            pass
    return vals


# ------------------------------------------------------------------ TLA+ value parser

def _skip(s, i):
    n = len(s)
    while i < n and s[i] in ' \t\r\n':
        i += 1
    return i


def parse_value(s, i=0):
    """Parse one TLA+ value printed by TLC starting at s[i]; returns (python value, next index).
    Records -> dict, sequences/tuples -> list, sets -> list tagged by dict {'__set__': [...]},
    functions (a :> b @@ ...) -> dict with stringified keys."""
    i = _skip(s, i)
    c = s[i]
    if c == '"':
        j = i + 1
        buf = []
        while s[j] != '"':
            if s[j] == '\\':
                nx = s[j + 1]
                buf.append({'n': '\n', 't': '\t', 'r': '\r', 'f': '\f'}.get(nx, nx))
                j += 2
            else:
                buf.append(s[j])
                j += 1
        return ''.join(buf), j + 1
    if c == '<' and s[i + 1] == '<':
        i = _skip(s, i + 2)
        items = []
        if s.startswith('>>', i):
            return items, i + 2
        while True:
            v, i = parse_value(s, i)
            items.append(v)
            i = _skip(s, i)
            if s[i] == ',':
                i += 1
                continue
            if s.startswith('>>', i):
                return items, i + 2
            raise ValueError('bad tuple at %d' % i)
    if c == '{':
        i = _skip(s, i + 1)
        items = []
        if s[i] == '}':
            return {'__set__': items}, i + 1
        while True:
            v, i = parse_value(s, i)
            items.append(v)
            i = _skip(s, i)
            if s[i] == ',':
                i += 1
                continue
            if s[i] == '}':
                return {'__set__': items}, i + 1
            raise ValueError('bad set at %d' % i)
    if c == '[':
        i = _skip(s, i + 1)
        rec = {}
        if s[i] == ']':
            return rec, i + 1
        while True:
            m = re.compile(r'[A-Za-z_0-9]+').match(s, i)
            key = m.group(0)
            i = _skip(s, m.end())
            if not s.startswith('|->', i):
                raise ValueError('bad record at %d' % i)
            v, i = parse_value(s, i + 3)
            rec[key] = v
            i = _skip(s, i)
            if s[i] == ',':
                i = _skip(s, i + 1)
                continue
            if s[i] == ']':
                return rec, i + 1
            raise ValueError('bad record at %d' % i)
    if c == '(':
        # function printed as (k :> v @@ k :> v)
        i = _skip(s, i + 1)
        fn = {}
        while True:
            k, i = parse_value(s, i)
            i = _skip(s, i)
            if not s.startswith(':>', i):
                raise ValueError('bad function at %d' % i)
            v, i = parse_value(s, i + 2)
            fn[k if isinstance(k, str) else json.dumps(k)] = v
            i = _skip(s, i)
            if s.startswith('@@', i):
                i = _skip(s, i + 2)
                continue
            if s[i] == ')':
                return fn, i + 1
            raise ValueError('bad function at %d' % i)
    m = re.compile(r'-?\d+').match(s, i)
    if m:
        return int(m.group(0)), m.end()
    m = re.compile(r'[A-Za-z_][A-Za-z_0-9]*').match(s, i)
    if m:
        w = m.group(0)
        if w == 'TRUE':
            return True, m.end()
        if w == 'FALSE':
            return False, m.end()
        return {'__mv__': w}, m.end()
    raise ValueError('cannot parse TLA+ value at %d: %r' % (i, s[i:i + 40]))


def unset(v):
    """Turn {'__set__': [...]} wrappers into plain sorted lists (recursively)."""
    if isinstance(v, dict):
        if '__set__' in v and len(v) == 1:
            items = [unset(x) for x in v['__set__']]
            try:
                return sorted(items, key=lambda x: json.dumps(x, sort_keys=True, ensure_ascii=False))
            except TypeError:
                return items
        return {k: unset(x) for k, x in v.items()}
    if isinstance(v, list):
        return [unset(x) for x in v]
    return v


def read_dump(path, where=None):
    """Yield states of a TLC -dump file as dicts var -> value; `where` filters on raw text first."""
    with open(path, encoding='utf-8') as f:
        block = []
        for line in f:
            if line.startswith('State ') and line.rstrip().endswith(':'):
                if block:
                    st = _state(block, where)
                    if st is not None:
                        yield st
                block = []
            elif line.strip():
                block.append(line)
        if block:
            st = _state(block, where)
            if st is not None:
                yield st


def _state(lines, where):
    text = ''.join(lines)
    if where and where not in text:
        return None
    st = {}
    # each conjunct starts with "/\ name = "
    parts = re.split(r'^/\\ ', text, flags=re.M)
    for p in parts:
        p = p.strip()
        if not p:
            continue
        m = re.match(r'([A-Za-z_0-9]+) = ', p)
        if not m:
            raise TLCError('unparsable dump conjunct: %r' % p[:80])
        v, _ = parse_value(p, m.end())
        st[m.group(1)] = unset(v)
    return st


def read_sim_traces(prefix_dir):
    """Parse files written by `-simulate file=<dir>/tr,num=N`: one behaviour per file; returns
    list of behaviours, each a list of (action_name, state dict)."""
    out = []
    for fn in sorted(os.listdir(prefix_dir)):
        if not fn.startswith('tr'):
            continue
        txt = open(os.path.join(prefix_dir, fn), encoding='utf-8').read()
        beh = []
        parts = re.split(r'^STATE_\d+ ==\s*$', txt, flags=re.M)
        for k in range(1, len(parts)):
            head = parts[k - 1]
            m = None
            for m in re.finditer(r'^\\\* <([A-Za-z_0-9]+)', head, flags=re.M):
                pass
            act = m.group(1) if m else 'Init'
            body = parts[k]
            cut = re.search(r'^(\\\*|=====)', body, flags=re.M)
            if cut:
                body = body[:cut.start()]
            beh.append((act, _state([body], None)))
        if beh:
            out.append(beh)
    return out


def sany(work, module):
    cmd = ['java', '-Djava.io.tmpdir=' + work] + JAVA_OPTS + ['-cp', JAR + ':' + DEPS, 'tla2sany.SANY', module + '.tla']
    p = subprocess.run(cmd, cwd=work, stdout=subprocess.PIPE, stderr=subprocess.STDOUT, timeout=300)
    out = p.stdout.decode('utf-8', 'replace')
    ok = p.returncode == 0 and 'Semantic errors' not in out and 'Parse Error' not in out and 'Fatal' not in out
    return ok, out


def require_ok(res, what):
    """Machinery failure unless TLC finished normally (no violation is a separate question)."""
    if res['rc'] not in (0,) and not res['violation']:
        sys.stderr.write('MACHINERY: TLC failed for %s (rc=%s)\n%s\n' % (what, res['rc'], res['out'][-3000:]))
        sys.exit(2)
