"""Common spec->code->spec flow used by most property checks:
   1. TLC enumerates a generator module (exhaustive, -dump) -> terminal states = cases
   2. worker pool replays each case into the real code
   3. a Trace_* module judges every observation (verdict in TLA+)
   4. binding self-test, verdict lines, evidence."""
import json
import sys
import time

from . import common, tlc, pool, judge


def generate(work, module, cfg, where='pc = "done"', timeout=3000, extra=None, workers=None):
    r = tlc.run(work, module, cfg=cfg, dump=True, extra=extra or [], timeout=timeout, workers=workers)
    if not r['ok'] and not r['violation']:
        tlc.require_ok(dict(r, rc=r['rc'] or 99), '%s/%s' % (module, cfg))
    states = list(tlc.read_dump(r['dump'], where=where))
    if not states:
        sys.stderr.write('MACHINERY: generator %s/%s produced no terminal state\n' % (module, cfg))
        raise SystemExit(2)
    return r, states


def simulate(work, module, cfg, num, depth, seed, where_key='pc', where_val='done', timeout=1800):
    """Seeded random walks of a generator; returns the last state of each behaviour."""
    import os
    d = os.path.join(work, 'sim_' + cfg.replace('.cfg', ''))
    os.makedirs(d, exist_ok=True)
    r = tlc.run(work, module, cfg=cfg, simulate='file=%s/tr,num=%d' % (d, num), depth=depth, seed=seed,
                workers=1, timeout=timeout, tag='sim_' + cfg.replace('.cfg', ''))
    out = []
    for beh in tlc.read_sim_traces(d):
        st = beh[-1][1]
        if st.get(where_key) == where_val:
            out.append(st)
    return r, out


def sample_evenly(items, k):
    if len(items) <= k:
        return list(items)
    step = len(items) / float(k)
    return [items[int(i * step)] for i in range(k)]


# --------------------------------------------------------------------------- standard runner

def run_standard(prop, tier, gens, case_of, trace, key_of, corruptors, init_name, rule, assumptions,
                 timeout=10.0, batch=50, extra_cases=None, nontrivial=None, level='model_checking',
                 post=None, exhaustive=True, inconclusive_is_violation=False, judge_shard=4000, sort_key=None, history_of=None, history_reverse=False):
    """gens: list of dicts {module, cfg, mode: 'dump'|'sim', num, depth, where}.
    case_of(state) -> case dict (must contain 'api' and the contract case under 'c') or None.
    trace: (module, cfg). key_of(case, clause) -> canonical key dict.
    corruptors: list of (select(event)->bool, mutate(event)->event) ; every mutated event must be rejected.
    history_of(case) -> group key: second pass in which all cases of one group run back to back, in sorted order, in
    one worker process on one set of cached models (every observation of the second pass is judged like the first)."""
    import copy
    t0 = time.time()
    wd = common.WorkDir(prop)
    V = common.Verdicts(prop)
    try:
        work = tlc.stage(wd.sub('spec'), {})
        cases = []
        gen_states = gen_trans = 0
        gen_info = []
        for g in gens:
            if g.get('mode', 'dump') == 'dump':
                r, states = generate(work, g['module'], g['cfg'], where=g.get('where', 'pc = "done"'), timeout=g.get('timeout', 3000))
            else:
                r, states = simulate(work, g['module'], g['cfg'], g['num'], g['depth'], common.seed())
            n0 = len(cases)
            for st in states:
                c = case_of(st)
                if c is None:
                    continue
                if isinstance(c, list):
                    cases.extend(c)
                else:
                    cases.append(c)
            gen_states += r['distinct']
            gen_trans += max(r['generated'] - 1, 0)
            gen_info.append({'module': g['module'], 'cfg': g['cfg'], 'distinct_states': r['distinct'], 'cases': len(cases) - n0})
        if extra_cases:
            cases.extend(extra_cases(work))
        if sort_key:
            cases.sort(key=sort_key)
        else:
            cases.sort(key=lambda c: json.dumps({k: v for k, v in c.items() if k != 'c'}, sort_keys=True, ensure_ascii=False, default=str))
        obs = pool.run_cases(cases, init_name=init_name, timeout=timeout, batch=batch, progress=prop)
        n_first = len(cases)
        n_groups = 0
        if history_of:
            by = {}
            for idx, c in enumerate(cases):
                by.setdefault(history_of(c), []).append(idx)
            groups = [by[k] for k in sorted(by)]
            n_groups = len(groups)
            obs2 = pool.run_cases(cases, init_name=init_name, timeout=timeout, progress=prop + '/histories', groups=groups)
            first = list(cases)
            cases = first + first
            obs = list(obs) + list(obs2)
            if history_reverse:      # the same groups once more, each in descending order
                obs3 = pool.run_cases(first, init_name=init_name, timeout=timeout, progress=prop + '/histories-desc', groups=[g[::-1] for g in groups])
                cases = cases + first
                obs = obs + list(obs3)
                n_groups *= 2
        events, inconclusive = [], 0
        for idx, (c, o) in enumerate(zip(cases, obs)):
            if o.get('timeout') and not inconclusive_is_violation:
                inconclusive += 1
                continue
            events.append({'id': idx, 'c': c['c'], 'obs': o})
        res = judge.judge(work, trace[0], events, cfg=trace[1], min_shard=judge_shard)
        # binding self-test: corrupt observations that TLC accepts.  A change under test may have broken many events (and
        # the list of failing events is capped), so the genuine candidates are judged first and only accepted ones are used.
        known_bad = {b[0] for b in res['bad']}
        cand, owner = [], []
        for ci, (sel, mut) in enumerate(corruptors):
            n = 0
            for e in events:
                if n >= 8:
                    break
                if e['id'] not in known_bad and 'exception' not in e['obs'] and sel(e):
                    cand.append(copy.deepcopy(e))
                    owner.append(ci)
                    n += 1
        for k, e in enumerate(cand):
            e['id'] = k
        accepted = set(range(len(cand)))
        if cand and res['nbad'] > 0:
            r0 = judge.judge(work, trace[0], cand, cfg=trace[1], shards=1)
            accepted -= {b[0] for b in r0['bad']}
        st_events = []
        good = None
        for ci, (sel, mut) in enumerate(corruptors):
            src = next((cand[k] for k in range(len(cand)) if owner[k] == ci and k in accepted), None)
            if src is None:
                if res['nbad'] > 0:
                    # the change under test broke every candidate of this corruptor: the run reports violations anyway
                    # (exit 1), which binds the spec to the code more directly than a corrupted observation would
                    print('self-test: no accepted observation to corrupt for %s (the run itself reports violations)'
                          % getattr(mut, '__name__', 'corruptor'))
                    continue
                print('MACHINERY: binding self-test found no event to corrupt for %s' % getattr(mut, '__name__', 'corruptor'))
                return 2
            if good is None:
                good = copy.deepcopy(src)
            st_events.append(mut(copy.deepcopy(src)))
        nbadwant = len(st_events)
        if good is not None:
            st_events.append(copy.deepcopy(good))
        for k, e in enumerate(st_events):
            e['id'] = k
        if st_events:
            rs = judge.judge(work, trace[0], st_events, cfg=trace[1], shards=1)
            good_is_bad = good is not None and any(b[0] == nbadwant for b in rs['bad'])
            if sorted(b[0] for b in rs['bad'] if b[0] < nbadwant) != list(range(nbadwant)) or good_is_bad:
                print('MACHINERY: binding self-test failed: corrupted observations accepted or a genuine one rejected: %s' % (rs['bad'],))
                return 2
        import os
        dump = os.environ.get('VERIF_DUMP_BAD')
        if dump:
            with open(dump, 'w', encoding='utf-8') as fh:
                for eid, clause in res['bad']:
                    fh.write(json.dumps({'key': key_of(cases[eid], clause), 'clause': clause, 'observed': obs[eid]}, ensure_ascii=False, default=str) + '\n')
        for eid, clause in res['bad']:
            c = cases[eid]
            payload = {'case': c, 'observed': obs[eid], 'clause': clause}
            if eid >= n_first:
                payload['pass'] = 'history: run after the other cases of group %r on the same cached models' % (history_of(c),)
            V.violation(key_of(c, clause), payload)
        if res['nbad'] > len(res['bad']):
            V.note('%d failing events in total; first %d reported' % (res['nbad'], len(res['bad'])))
        for eid in res['drift'][:5]:
            V.note('mechanism-drift: event %s' % json.dumps({k: v for k, v in cases[eid].items() if k != 'c'}, ensure_ascii=False)[:300])
        extra_cov = {}
        if post:
            extra_cov = post(work, V, cases, obs) or {}
        rc = V.finish()
        nt = nontrivial or (lambda c, o: bool(o.get('ents')))
        cov = {
            'states': gen_states + res['states'],
            'transitions': gen_trans + res['transitions'],
            'traces_validated_against_impl': res['n'],
            'samples': [{'case': {k: v for k, v in c.items() if k != 'c'}, 'expect': c['c'], 'observed': o}
                        for c, o in sample_evenly(list(zip(cases, obs)), 5)],
            'evaluations': len(cases),
            'distinct_nontrivial': len({json.dumps({k: v for k, v in c.items() if k != 'c'}, sort_keys=True, ensure_ascii=False, default=str)
                                        for c, o in zip(cases, obs) if nt(c, o)}),
            'rule': rule,
            'exhaustive': exhaustive,
            'generators': gen_info,
            'binding_selftest': 'passed (%d corrupted observations rejected)' % nbadwant,
            'inconclusive_timeouts': inconclusive,
            'history_groups_replayed': n_groups,
            'mechanism_drift_events': len(res['drift']),
            'known_findings_hit': sorted(V.known_hits),
            'failing_events': res['nbad'],
        }
        for k, v in extra_cov.items():
            if k in ('states', 'transitions', 'traces_validated_against_impl', 'evaluations') and isinstance(v, int):
                cov[k] += v
            else:
                cov[k] = v
        common.write_evidence(prop, tier, level, cov, time.time() - t0, len(V.new), assumptions)
        return rc
    finally:
        wd.cleanup()


def replay_standard(prop, path, trace, init_name, timeout=10.0):
    rec = json.load(open(path, encoding='utf-8'))
    c = rec['detail']['case']
    wd = common.WorkDir(prop + 'r')
    try:
        work = tlc.stage(wd.sub('spec'), {})
        obs = pool.run_cases([c], init_name=init_name, batch=1, timeout=timeout)
        res = judge.judge(work, trace[0], [{'id': 0, 'c': c['c'], 'obs': obs[0]}], cfg=trace[1], shards=1)
        print(json.dumps({'case': {k: v for k, v in c.items() if k != 'c'}, 'observed': obs[0], 'verdict': res['bad']}, ensure_ascii=False, indent=1))
        if res['nbad']:
            print('VIOLATION property=%s replay=%s' % (prop, path))
            return 1
        return 0
    finally:
        wd.cleanup()
