"""Common spec->code->spec flow used by most property checks:
   1. TLC enumerates a generator module (exhaustive, -dump) -> terminal states = cases
   2. worker pool replays each case into the real code
   3. a Trace_* module judges every observation (verdict in TLA+)
   4. binding self-test, verdict lines, evidence."""
import json
import sys
import time

from . import common, tlc, pool, judge


def generate(work, module, cfg, where='pc = "done"', timeout=3000, extra=None, workers=None):
    r = tlc.run(work, module, cfg=cfg, dump=True, extra=extra or [], timeout=timeout, workers=workers)
    if not r['ok'] and not r['violation']:
        tlc.require_ok(dict(r, rc=r['rc'] or 99), '%s/%s' % (module, cfg))
    states = list(tlc.read_dump(r['dump'], where=where))
    if not states:
        sys.stderr.write('MACHINERY: generator %s/%s produced no terminal state\n' % (module, cfg))
        raise SystemExit(2)
    return r, states


def simulate(work, module, cfg, num, depth, seed, where_key='pc', where_val='done', timeout=1800):
    """Seeded random walks of a generator; returns the last state of each behaviour."""
    import os
    d = os.path.join(work, 'sim_' + cfg.replace('.cfg', ''))
    os.makedirs(d, exist_ok=True)
    r = tlc.run(work, module, cfg=cfg, simulate='file=%s/tr,num=%d' % (d, num), depth=depth, seed=seed,
                workers=1, timeout=timeout, tag='sim_' + cfg.replace('.cfg', ''))
    out = []
    for beh in tlc.read_sim_traces(d):
        st = beh[-1][1]
        if st.get(where_key) == where_val:
            out.append(st)
    return r, out


def sample_evenly(items, k):
    if len(items) <= k:
        return list(items)
    step = len(items) / float(k)
    return [items[int(i * step)] for i in range(k)]
