"""./check entry point."""
import argparse
import importlib
import os
import sys
import time

from . import common


def main():
    ap = argparse.ArgumentParser(prog='check')
    ap.add_argument('prop', nargs='?')
    ap.add_argument('--tier', default=os.environ.get('VERIF_TIER', 'quick'), choices=['quick', 'thorough'])
    ap.add_argument('--replay')
    ap.add_argument('--setup', action='store_true')
    a = ap.parse_args()
    common.setup_sys_path()
    if a.setup:
        from . import setup
        sys.exit(setup.run())
    if not a.prop:
        ap.error('property id required')
    pid = a.prop.upper()
    try:
        mod = importlib.import_module('harness.props.%s' % pid.lower())
    except ModuleNotFoundError as ex:
        if 'harness.props' in str(ex):
            sys.stderr.write('no check for %s\n' % pid)
            sys.exit(2)
        raise
    t0 = time.time()
    if a.replay:
        rc = mod.replay(a.replay)
    else:
        rc = mod.run(a.tier)
    sys.stderr.write('[%s %s] exit %d after %.1fs\n' % (pid, a.tier, rc, time.time() - t0))
    sys.exit(rc)


if __name__ == '__main__':
    try:
        main()
    except SystemExit:
        raise
    except Exception:
        import traceback
        traceback.print_exc()
        sys.exit(2)
