"""The cross-platform Specs corpus (Specs/<Recognizer>/<Language>/*.json): Model-level cases the
Python port claims to support, with the API that serves them."""
import glob
import json
import os
import re

from . import common

CULTURES = {
    'Chinese': 'zh-cn', 'Dutch': 'nl-nl', 'English': 'en-us', 'French': 'fr-fr', 'Italian': 'it-it',
    'Japanese': 'ja-jp', 'Korean': 'ko-kr', 'Portuguese': 'pt-br', 'Spanish': 'es-es',
    'SpanishMexican': 'es-mx', 'Turkish': 'tr-tr', 'German': 'de-de',
}
MODEL_API = {
    ('Number', 'NumberModel'): 'number', ('Number', 'OrdinalModel'): 'ordinal', ('Number', 'PercentModel'): 'percentage',
    ('NumberWithUnit', 'AgeModel'): 'age', ('NumberWithUnit', 'CurrencyModel'): 'currency',
    ('NumberWithUnit', 'DimensionModel'): 'dimension', ('NumberWithUnit', 'TemperatureModel'): 'temperature',
    ('DateTime', 'DateTimeModel'): 'datetime',
    ('Sequence', 'PhoneNumberModel'): 'phone', ('Sequence', 'IpAddressModel'): 'ip', ('Sequence', 'MentionModel'): 'mention',
    ('Sequence', 'HashtagModel'): 'hashtag', ('Sequence', 'URLModel'): 'url', ('Sequence', 'GUIDModel'): 'guid',
    ('Sequence', 'EmailModel'): 'email',
    ('Choice', 'BooleanModel'): 'boolean',
}


def supported(spec):
    if 'python' in (spec.get('NotSupportedByDesign') or ''):
        return False
    if 'python' in (spec.get('NotSupported') or ''):
        return False
    return True


def model_cases(default_options_only=True):
    """Every Python-supported Model-level case with default options: dicts with api, culture,
    text, ref, file, index, expected."""
    out = []
    root = os.path.join(common.REPO, 'Specs')
    for path in sorted(glob.glob(os.path.join(root, '*', '*', '*.json'))):
        rel = os.path.relpath(path, root)
        recog, lang, fname = rel.split(os.sep)
        name = fname[:-5]
        api = MODEL_API.get((recog, name))
        if api is None or lang not in CULTURES:
            continue
        try:
            specs = json.load(open(path, encoding='utf-8-sig'))
        except Exception:
            continue
        for idx, sp in enumerate(specs):
            if not supported(sp) or 'Input' not in sp:
                continue
            ref = None
            ctx = sp.get('Context') or {}
            r = ctx.get('ReferenceDateTime')
            if isinstance(r, str) and len(r) >= 19:
                ref = r[0:19]
            out.append({'api': api, 'culture': CULTURES[lang], 'text': sp['Input'], 'ref': ref,
                        'file': rel, 'index': idx, 'expected': sp.get('Results', [])})
    return out


def registered_apis():
    """(api, culture) pairs the public recognise functions serve with their own model (from the
    registration tables of the running code, obtained through the 'registered' driver)."""
    return None
