"""Code executed inside worker processes: calls /repo's public API and projects results to
flat JSON records (attribute reads only, no derived values)."""
import datetime
import os
import sys

from . import common

L = {}


def init(name='all'):
    common.setup_sys_path()
    import warnings
    warnings.simplefilter('ignore')
    import recognizers_text
    import datatypes_timex_expression
    mods = [recognizers_text, datatypes_timex_expression]
    L['text'] = recognizers_text
    L['timex'] = datatypes_timex_expression
    if name in ('all', 'number', 'unit', 'datetime', 'models'):
        import recognizers_number
        L['number'] = recognizers_number
        mods.append(recognizers_number)
    if name in ('all', 'unit', 'datetime', 'models'):
        import recognizers_number_with_unit
        L['unit'] = recognizers_number_with_unit
        mods.append(recognizers_number_with_unit)
    if name in ('all', 'datetime', 'models'):
        import recognizers_date_time
        L['datetime'] = recognizers_date_time
        mods.append(recognizers_date_time)
    if name in ('all', 'sequence', 'models'):
        import recognizers_sequence
        L['sequence'] = recognizers_sequence
        mods.append(recognizers_sequence)
    if name in ('all', 'choice', 'models'):
        import recognizers_choice
        L['choice'] = recognizers_choice
        mods.append(recognizers_choice)
    common.assert_repo_modules(mods)


# --------------------------------------------------------------------------- projections

def _s(v):
    if isinstance(v, bool):
        return 'true' if v else 'false'
    return str(v)


def proj_resolution(res):
    if res is None:
        return {'nores': True}
    if not isinstance(res, dict):
        return {'raw': _s(res)}
    out = {}
    for k, v in res.items():
        if v is None:
            continue
        if k == 'values' and isinstance(v, list):
            vals = []
            for item in v:
                if isinstance(item, dict):
                    vals.append({kk: _s(vv) for kk, vv in item.items() if vv is not None})
                else:
                    vals.append({'raw': _s(item)})
            out['values'] = vals
        elif isinstance(v, (list, tuple)):
            out[k] = [_s(x) for x in v]
        elif isinstance(v, dict):
            out[k] = {kk: _s(vv) for kk, vv in v.items() if vv is not None}
        else:
            out[k] = _s(v)
    return out


def proj_entity(r):
    return {'s': r.start, 'e': r.end, 'text': r.text, 'type': r.type_name,
            'res': proj_resolution(r.resolution)}


def parse_ref(s):
    # "YYYY-MM-DDTHH:MM:SS"
    d, t = s.split('T')
    y, m, dd = d.split('-')
    hh, mm, ss = t.split(':')
    us = 0
    if '.' in ss:                      # "HH:MM:SS.ffffff": a reference with a sub-second part
        ss, frac = ss.split('.')
        us = int((frac + '000000')[:6])
    return datetime.datetime(int(y), int(m), int(dd), int(hh), int(mm), int(ss), us)


_RECOG = {
    'number': ('number', 'recognize_number'),
    'ordinal': ('number', 'recognize_ordinal'),
    'percentage': ('number', 'recognize_percentage'),
    'currency': ('unit', 'recognize_currency'),
    'dimension': ('unit', 'recognize_dimension'),
    'temperature': ('unit', 'recognize_temperature'),
    'age': ('unit', 'recognize_age'),
    'ip': ('sequence', 'recognize_ip_address'),
    'guid': ('sequence', 'recognize_guid'),
    'email': ('sequence', 'recognize_email'),
    'url': ('sequence', 'recognize_url'),
    'hashtag': ('sequence', 'recognize_hashtag'),
    'mention': ('sequence', 'recognize_mention'),
    'phone': ('sequence', 'recognize_phone_number'),
    'boolean': ('choice', 'recognize_boolean'),
}


def recognize(api, text, culture, ref=None, opt=0):
    if api == 'datetime':
        fn = L['datetime'].recognize_datetime
        kw = {}
        if opt:
            kw['options'] = L['datetime'].DateTimeOptions(opt)
        if ref:
            kw['reference'] = parse_ref(ref)
        return fn(text, culture, **kw)
    lib, name = _RECOG[api]
    return getattr(L[lib], name)(text, culture)


def run_case(case):
    api = case['api']
    fn = _HANDLERS.get(api)
    if fn is not None:
        return fn(case)
    ents = recognize(api, case['text'], case['culture'], case.get('ref'), case.get('opt') or 0)
    return {'ents': [proj_entity(r) for r in ents]}


# --------------------------------------------------------------------------- timex datatype

_TIMEX_FIELDS = ['now', 'years', 'months', 'weeks', 'days', 'hours', 'minutes', 'seconds',
                 'year', 'month', 'day_of_month', 'day_of_week', 'season', 'week_of_year',
                 'weekend', 'week_of_month', 'part_of_day', 'hour', 'minute', 'second']


def proj_timex(t):
    out = {}
    for f in _TIMEX_FIELDS:
        v = getattr(t, f)
        if v is None:
            continue
        if f in ('now', 'weekend'):
            if v is True:
                out[f] = 'true'
            continue
        out[f] = _s(v)
    return out


def h_timex_roundtrip(case):
    Timex = L['timex'].Timex
    s = case['text']
    t1 = Timex(s)
    f1 = proj_timex(t1)
    types1 = sorted(t1.types)
    v1 = t1.timex_value()
    t2 = Timex(v1)
    f2 = proj_timex(t2)
    v2 = t2.timex_value()
    return {'fields1': f1, 'types1': types1, 'fmt1': v1, 'fields2': f2, 'fmt2': v2}


def h_timex_from(case):
    Timex = L['timex'].Timex
    kind = case['kind']
    y, mo, d, h, mi, s = case['y'], case['mo'], case['d'], case['h'], case['mi'], case['sec']
    if kind == 'date':
        t = Timex.from_date(datetime.datetime(y, mo, d))
    elif kind == 'datetime':
        t = Timex.from_date_time(datetime.datetime(y, mo, d, h, mi, s))
    else:
        t = Timex.from_time(L['timex'].Time(h, mi, s))
    return {'fmt1': t.timex_value(), 'fields1': proj_timex(t)}


def h_timex_resolve(case):
    TimexResolver = L['timex'].TimexResolver
    ref = parse_ref(case['ref'])
    r = TimexResolver.resolve(case['timexes'], ref)
    vals = []
    for v in r.values:
        e = {}
        for k in ('timex', 'type', 'value', 'start', 'end'):
            x = getattr(v, k, None)
            if x is not None:
                e[k] = _s(x)
        vals.append(e)
    return {'values': vals}


def h_timex_evaluate(case):
    TimexRangeResolver = L['timex'].TimexRangeResolver
    r = TimexRangeResolver.evaluate(case['candidates'], case['constraints'])
    return {'timexes': [t.timex_value() for t in r]}


# --------------------------------------------------------------------------- matcher

def h_tokenize(case):
    from recognizers_text.matcher.simple_tokenizer import SimpleTokenizer
    from recognizers_text.matcher.number_with_unit_tokenizer import NumberWithUnitTokenizer
    tk = SimpleTokenizer() if case['tokenizer'] == 'simple' else NumberWithUnitTokenizer()
    text = ''.join(chr(c) for c in case['cps'])
    toks = tk.tokenize(text)
    return {'tokens': [{'start': t.start, 'length': t.length, 'cps': [ord(c) for c in t.text]} for t in toks]}


def h_match(case):
    from recognizers_text.matcher.string_matcher import StringMatcher
    from recognizers_text.matcher.match_strategy import MatchStrategy
    from recognizers_text.matcher.simple_tokenizer import SimpleTokenizer
    from recognizers_text.matcher.number_with_unit_tokenizer import NumberWithUnitTokenizer
    tk = SimpleTokenizer() if case.get('tokenizer', 'simple') == 'simple' else NumberWithUnitTokenizer()
    m = StringMatcher(MatchStrategy.TrieTree, tk)
    phrases = [''.join(chr(c) for c in p) for p in case['phrases']]
    form = case.get('form', 'list')
    if form == 'list':
        m.init(phrases)
        ids = [str(p) for p in phrases]
    elif form == 'ids':
        ids = list(case['ids'])
        m.init(phrases, list(ids))
    else:
        ids = list(case['ids'])
        d = {}
        for p, i in zip(phrases, ids):
            d.setdefault(i, []).append(p)
        m.init(d)
    q = ''.join(chr(c) for c in case['query'])
    res = []
    for r in m.find(q):
        res.append({'start': r.start, 'length': r.length, 'cps': [ord(c) for c in (r.text or '')],
                    'ids': sorted(set(_s(x) for x in r.canonical_values))})
    tok = lambda t: [{'start': x.start, 'length': x.length, 'cps': [ord(c) for c in x.text]} for x in m.tokenizer.tokenize(t)]
    return {'matches': res, 'qtoks': tok(q),
            'dict': [{'toks': [t['cps'] for t in tok(p)], 'id': i} for p, i in zip(phrases, ids)]}


def h_collapse(case):
    """internal helper observed for the mechanism model (advisory only)"""
    import datetime as _dt
    from datatypes_timex_expression.timex_constraints_helper import TimexConstraintsHelper
    from datatypes_timex_expression import DateRange
    base = _dt.date(2019, 1, 1)
    rs = [DateRange(base + _dt.timedelta(days=a), base + _dt.timedelta(days=b)) for a, b in case['ranges']]
    out = TimexConstraintsHelper.collapse(TimexConstraintsHelper(), rs)
    return {'ranges': [[(r.start - base).days, (r.end - base).days] for r in out]}


# --------------------------------------------------------------------------- routing / cache

_REG = {}


def _registered():
    if not _REG:
        from . import cachelab
        cachelab.install()
        pairs, valid, fam_of = cachelab.registered(L)
        _REG.update(pairs=pairs, valid=valid, fam_of=fam_of)
    return _REG


def h_registered(case):
    r = _registered()
    return {'pairs': r['pairs'], 'valid': r['valid'], 'family': r['fam_of']}


def h_history(case):
    """A history of model requests on one thread (cold or warm start); returns per-request
    observations and the event log of the shared cache."""
    from . import cachelab
    reg = _registered()
    if case.get('cold', True):
        cachelab.reset(record=True)
    else:
        cachelab.STATE['events'] = []
        cachelab.STATE['seq'] = 0
    obs = []
    shared = {} if case.get('shared') else None
    for r in case['reqs']:
        if r.get('clear'):
            cachelab.clear_cache_only()
        o, _ = cachelab.do_request(L, reg['fam_of'], r, shared)
        obs.append(o)
    ev = cachelab.STATE['events']
    cachelab.STATE['events'] = None
    return {'obs': obs, 'events': cachelab.finalize(ev)}


def h_threads(case):
    """Free-running threads sharing the cache, each issuing its own request list."""
    import threading
    from . import cachelab
    reg = _registered()
    cachelab.reset(record=True)
    results = {}

    def work(k, reqs):
        out = []
        for r in reqs:
            o, _ = cachelab.do_request(L, reg['fam_of'], r)
            out.append(o)
        results[k] = out

    ths = [threading.Thread(target=work, args=(k, reqs)) for k, reqs in enumerate(case['threads'])]
    for t in ths:
        t.start()
    for t in ths:
        t.join()
    ev = cachelab.STATE['events']
    cachelab.STATE['events'] = None
    return {'obs': [results[k] for k in range(len(ths))], 'events': cachelab.finalize(ev)}


def h_schedule(case):
    """spec -> code: replay one interleaving of ModelCache.tla on the real factory.  Each spec
    thread is a Python thread; it is released one segment at a time (up to the constructor
    gate, through the constructor, to the end of the call) in the order the spec behaviour
    takes its Lookup / Build / Insert steps."""
    import threading
    from . import cachelab
    reg = _registered()
    cachelab.reset(record=True)
    nthreads = case['nthreads']
    go = [threading.Semaphore(0) for _ in range(nthreads)]
    parked = [threading.Event() for _ in range(nthreads)]
    done = [False] * nthreads
    me = threading.local()
    results = [[] for _ in range(nthreads)]

    def gate(where):
        k = getattr(me, 'k', None)
        if k is None:
            return
        parked[k].set()
        go[k].acquire()

    def work(k, reqs):
        me.k = k
        parked[k].set()
        go[k].acquire()
        for r in reqs:
            o, _ = cachelab.do_request(L, reg['fam_of'], r)
            results[k].append(o)
            parked[k].set()          # call boundary
            go[k].acquire()
        done[k] = True
        parked[k].set()

    cachelab.STATE['gate'] = gate
    ths = [threading.Thread(target=work, args=(k, case['reqs'][k]), daemon=True) for k in range(nthreads)]
    try:
        for t in ths:
            t.start()
        for k in range(nthreads):
            parked[k].wait(30)
        stuck = False
        for k in case['order']:
            if done[k]:
                continue
            parked[k].clear()
            go[k].release()
            if not parked[k].wait(60):
                stuck = True
                break
        # drain: let every thread finish
        for _ in range(200):
            alive = [k for k in range(nthreads) if not done[k]]
            if not alive or stuck:
                break
            for k in alive:
                parked[k].clear()
                go[k].release()
                parked[k].wait(60)
    finally:
        cachelab.STATE['gate'] = None
    ev = cachelab.STATE['events']
    cachelab.STATE['events'] = None
    return {'obs': results, 'events': cachelab.finalize(ev), 'stuck': stuck}


def h_fingerprint(case):
    """Behaviour of the model served for (type, culture): which probe words resolve to 2."""
    from . import cachelab
    reg = _registered()
    o, m = cachelab.do_request(L, reg['fam_of'], {'type': case['type'], 'code': case['culture'], 'opt': 0, 'fb': False})
    if m is None:
        return {'served': o, 'hits': []}
    hits = []
    for cul, word in case['probes']:
        try:
            rs = m.parse(word)
        except Exception:
            rs = []
        if any((r.resolution or {}).get('value') == '2' for r in rs):
            hits.append(cul)
    return {'served': o, 'hits': hits}


def h_purity_scenario(case):
    """Run one C02 scenario in a fresh interpreter (cold modules, cold cache)."""
    import json as _json
    import subprocess
    env = dict(os.environ)
    env['PYTHONPATH'] = common.repo_pythonpath()
    env['PYTHONDONTWRITEBYTECODE'] = '1'
    env['PYTHONHASHSEED'] = '0'
    env['PYTHONWARNINGS'] = 'ignore'
    p = subprocess.run([sys.executable, '-X', 'utf8', '-m', 'harness.purity_child'], input=_json.dumps(case['scenario']).encode('utf-8'),
                       stdout=subprocess.PIPE, stderr=subprocess.PIPE, env=env, cwd=common.VERIF, timeout=case.get('timeout', 600))
    if p.returncode != 0:
        return {'exception': 'ChildFailed', 'message': p.stderr.decode('utf-8', 'replace')[-400:]}
    return {'observations': _json.loads(p.stdout.decode('utf-8'))}


def h_unit_tables(case):
    """The quantifier domain of C05: every (culture, type, unit, surface, side) wired into the
    configuration of each registered number-with-unit model, plus currency ISO / fraction tables."""
    from recognizers_number_with_unit.number_with_unit.number_with_unit_recognizer import NumberWithUnitRecognizer
    from recognizers_number_with_unit.resources.base_currency import BaseCurrency
    rec = NumberWithUnitRecognizer('en-us')
    entries, pairs = [], []
    api_of = {'CurrencyModel': 'currency', 'DimensionModel': 'dimension', 'TemperatureModel': 'temperature', 'AgeModel': 'age'}
    for key in sorted(rec.model_factory.model_factories, key=lambda k: (k.model_type, k.culture)):
        model = rec.get_model(key.model_type, key.culture, False)
        for ep in model.extractor_parser:
            cfg = ep.extractor.config
            pcfg = ep.parser.config
            amb = set(x.lower() for x in (cfg.ambiguous_unit_list or []))
            iso = dict(getattr(pcfg, 'currency_name_to_iso_code_map', None) or {})
            fracs = dict(getattr(pcfg, 'currency_fraction_code_list', None) or {})
            for side, table in (('suffix', cfg.suffix_list), ('prefix', cfg.prefix_list)):
                for unit, spellings in (table or {}).items():
                    for sp in str(spellings).split('|'):
                        if not sp.strip():
                            continue
                        entries.append({'culture': key.culture, 'type': api_of[key.model_type], 'unit': unit, 'surface': sp, 'side': side,
                                        'ambiguous': sp.lower() in amb, 'iso': iso.get(unit, ''), 'fraction_code': fracs.get(unit, '')})
            if key.model_type == 'CurrencyModel':
                connector = getattr(cfg, 'connector_token', '') or ''
                inv_frac = {}
                for unit, code in fracs.items():
                    inv_frac.setdefault(code, []).append(unit)
                for unit, code in iso.items():
                    for fcode in str(BaseCurrency.CurrencyFractionMapping.get(code, '')).split('|'):
                        for funit in inv_frac.get(fcode, []):
                            ratio = (getattr(pcfg, 'currency_fraction_num_map', None) or {}).get(funit)
                            if not ratio:
                                continue
                            pairs.append({'culture': key.culture, 'main': unit, 'iso': code, 'fraction': funit, 'ratio': int(ratio),
                                          'connector': connector,
                                          'main_surfaces': [sp for sp in str(cfg.suffix_list.get(unit, '')).split('|') if sp.strip() and sp.lower() not in amb][:3],
                                          'fraction_surfaces': [sp for sp in str(cfg.suffix_list.get(funit, '')).split('|') if sp.strip() and sp.lower() not in amb][:2]})
    return {'entries': entries, 'pairs': pairs}


def h_mergemech(case):
    """Replay one initial state of spec/mech/MergeMech.tla into the real merging code (advisory binding)."""
    mech = case['mech']
    src = 'abcdefgh'[:case['n']]
    if mech == 'sweep':
        import regex
        from recognizers_number.number.extractors import BaseNumberExtractor, ReVal

        class Ex(BaseNumberExtractor):
            regexes = [ReVal(re=regex.compile(regex.escape(src[a:b + 1])), val='x') for a, b in case['input']]
            _extract_type = 'x'
        return {'out': [[r.start, r.start + r.length - 1] for r in Ex().extract(src)]}
    if mech == 'tokens':
        from recognizers_date_time.date_time.utilities import Token, merge_all_tokens
        res = merge_all_tokens([Token(a, b) for a, b in case['input']], src, 'x')
        return {'out': [[r.start, r.start + r.length] for r in res]}
    from recognizers_text.extractor import ExtractResult
    from recognizers_date_time.date_time.base_merged import BaseMergedExtractor
    from recognizers_date_time.date_time.english.merged_extractor_config import EnglishMergedExtractorConfiguration
    from recognizers_date_time.date_time.utilities import DateTimeOptions
    global _MERGED
    try:
        _MERGED
    except NameError:
        _MERGED = BaseMergedExtractor(EnglishMergedExtractorConfiguration(), DateTimeOptions.NONE)

    def er(a, b):
        x = ExtractResult()
        x.start, x.length, x.text, x.type = a, b - a + 1, src[a:b + 1], 'x'
        return x
    out = _MERGED.add_to([er(a, b) for a, b in case['input'][0]], [er(a, b) for a, b in case['input'][1]], src)
    return {'out': [[r.start, r.start + r.length - 1] for r in out]}


def h_intvalue(case):
    """internal helpers of the English number parser, observed for the mechanism model IntValue.tla (advisory)"""
    global _ENP
    try:
        _ENP
    except NameError:
        from recognizers_number.number.parser_factory import AgnosticNumberParserFactory, ParserType
        from recognizers_number.number.english.parsers import EnglishNumberParserConfiguration
        _ENP = AgnosticNumberParserFactory.get_parser(ParserType.NUMBER, EnglishNumberParserConfiguration())
    m = _ENP._BaseNumberParser__get_matches(case['text'])
    return {'matches': m, 'value': str(_ENP._BaseNumberParser__get_int_value(m))}


def h_choicematch(case):
    """ChoiceExtractor.match_value over every start position (advisory binding of ChoiceMatch.tla)"""
    from recognizers_choice.choice.recognizers_choice import ChoiceRecognizer
    ex = ChoiceRecognizer('en-us').get_boolean_model('en-us').extractor
    top = 0.0
    for i in range(len(case['src'])):
        try:
            top = max(top, ex.match_value(list(case['src']), list(case['mat']), i))
        except ZeroDivisionError:
            return {'top': 'raised'}
    return {'top': repr(round(top, 9))}


def h_selectcands(case):
    """NumberWithUnitExtractor._select_candidates on constructed candidates (advisory binding of SelectCandidates.tla)"""
    global _NWU
    try:
        _NWU
    except NameError:
        from recognizers_number_with_unit.number_with_unit.extractors import NumberWithUnitExtractor
        from recognizers_number_with_unit.number_with_unit.english.extractors import EnglishCurrencyExtractorConfiguration
        _NWU = NumberWithUnitExtractor(EnglishCurrencyExtractorConfiguration())
    from recognizers_text.extractor import ExtractResult
    src = 'abcdefghij'[:case['n']]
    ers = []
    for c in case['ers']:
        x = ExtractResult()
        x.start, x.length, x.text, x.type, x.data = c['start'], c['length'], src[c['start']:c['start'] + c['length']], 'x', None
        ers.append(x)
    out = _NWU._select_candidates(src, ers, [c['prefix'] for c in case['ers']])
    return {'out': [[r.start, r.length] for r in out]}


def h_generatedates(case):
    """DateUtils.generate_dates(no_year=True, ...) (advisory binding of GenerateDates.tla); dates as ordinals, 0 = min_value"""
    import datetime as _dt
    from recognizers_date_time.date_time.utilities import DateUtils
    d0 = _dt.date.fromordinal(case['n'])
    ref = _dt.datetime(d0.year, d0.month, d0.day, 15 if case['tod'] else 0, 0, 0)
    fut, past = DateUtils.generate_dates(True, ref, ref.year, case['m'], case['d'])
    o = lambda x: 0 if x.year == 1 and x.month == 1 and x.day == 1 else x.toordinal()
    return {'res': [o(fut), o(past)]}


_ADDMOD_WORDS = {'E': '\u65e5', 'b': '\u524d', 'a': None, 'u': None, 's': '\u4ece', 'x': None, '=': '=', ' ': ' ', 'o': 'x'}
_ADDMOD_PAIRS = {'aa': '\u4e4b\u540e', 'uu': '\u76f4\u5230', 'xx': '\u4ee5\u6765'}


def h_addmod(case):
    """ChineseMergedExtractor.add_mod on constructed entities (advisory binding of AddMod.tla): the model's stand-in
    words are replaced by the real words of the same length, so offsets coincide."""
    global _ZHX
    try:
        _ZHX
    except NameError:
        from recognizers_date_time.date_time.chinese.merged_extractor import ChineseMergedExtractor
        from recognizers_date_time.date_time.utilities import DateTimeOptions
        _ZHX = ChineseMergedExtractor(DateTimeOptions.NONE)
    from recognizers_text.extractor import ExtractResult
    m = case['src']
    real = ''
    i = 0
    while i < len(m):
        if m[i:i + 2] in _ADDMOD_PAIRS:
            real += _ADDMOD_PAIRS[m[i:i + 2]]
            i += 2
        else:
            real += _ADDMOD_WORDS[m[i]]
            i += 1
    assert len(real) == len(m)
    ers = []
    for c in case['ents']:
        x = ExtractResult()
        x.start, x.length, x.text, x.type, x.data = c['start'], c['length'], real[c['start']:c['start'] + c['length']], 'date', None
        ers.append(x)
    _ZHX.add_mod(ers, real)
    # back to the model's alphabet: compare start, length and whether text is the slice it points at
    return {'out': [[r.start, r.length, r.text == real[max(r.start, 0):max(r.start, 0) + r.length] and r.start >= 0] for r in ers]}


def h_digitalvalue(case):
    """BaseNumberParser._get_digital_value(s, 1) for a list of strings (advisory binding of DigitalValue.tla);
    each result as [negative?, integer part, millionths] or the exception name"""
    global _NUMP
    try:
        _NUMP
    except NameError:
        _NUMP = {}
    cul = case['culture']
    if cul not in _NUMP:
        from recognizers_number.number.parser_factory import AgnosticNumberParserFactory, ParserType
        from recognizers_number.culture import CultureInfo
        from recognizers_number.number.english.parsers import EnglishNumberParserConfiguration
        from recognizers_number.number.spanish.parsers import SpanishNumberParserConfiguration
        from recognizers_number.number.german.parsers import GermanNumberParserConfiguration
        conf = {'en-us': EnglishNumberParserConfiguration, 'es-es': SpanishNumberParserConfiguration,
                'es-mx': SpanishNumberParserConfiguration, 'de-de': GermanNumberParserConfiguration}[cul]
        _NUMP[cul] = AgnosticNumberParserFactory.get_parser(ParserType.NUMBER, conf(CultureInfo(cul)))
    from decimal import Decimal
    out = []
    for t in case['texts']:
        try:
            v = _NUMP[cul]._get_digital_value(t, 1)
            a = abs(Decimal(v))
            ip = int(a)
            out.append([bool(Decimal(v) < 0), ip, int(((a - ip) * 1000000).to_integral_value())])
        except Exception as ex:
            out.append(type(ex).__name__)
    return {'out': out}


_CJK_REAL = dict(zip('zabcdefghilSBQWY', '\u96f6\u4e00\u4e8c\u4e09\u56db\u4e94\u516d\u4e03\u516b\u4e5d\u4e24\u5341\u767e\u5343\u4e07\u4ebf'))


def h_cjkint(case):
    """BaseCJKNumberParser.get_int_value on texts written in the stand-in alphabet of CJKIntValue.tla (advisory binding)"""
    global _CJKP
    try:
        _CJKP
    except NameError:
        _CJKP = {}
    cul = case['culture']
    if cul not in _CJKP:
        from recognizers_number.number.parser_factory import AgnosticNumberParserFactory, ParserType
        from recognizers_number.culture import CultureInfo
        if cul == 'zh-cn':
            from recognizers_number.number.chinese.parsers import ChineseNumberParserConfiguration as Conf
        else:
            from recognizers_number.number.japanese.parsers import JapaneseNumberParserConfiguration as Conf
        _CJKP[cul] = AgnosticNumberParserFactory.get_parser(ParserType.NUMBER, Conf(CultureInfo(cul)))
    out = []
    for t in case['texts']:
        real = ''.join(_CJK_REAL.get(ch, ch) for ch in t)
        try:
            v = _CJKP[cul].get_int_value(real)
            out.append(int(v) if v == int(v) else str(v))
        except Exception as ex:
            out.append(type(ex).__name__)
    return {'out': out}


def h_modpushpop(case):
    """BaseMergedParser.parse (en-us) on a constructed entity whose text starts with modifier words (advisory binding of
    ModPushPop.tla): returns start, length and text of the result"""
    global _ENMP
    try:
        _ENMP
    except NameError:
        from recognizers_date_time.date_time.english.merged_parser_config import EnglishMergedParserConfiguration
        from recognizers_date_time.date_time.english.common_configs import EnglishCommonDateTimeParserConfiguration
        from recognizers_date_time.date_time.base_merged import BaseMergedParser
        from recognizers_date_time.date_time.utilities import DateTimeOptions
        _ENMP = BaseMergedParser(EnglishMergedParserConfiguration(EnglishCommonDateTimeParserConfiguration()), DateTimeOptions.NONE)
    from recognizers_text.extractor import ExtractResult
    from recognizers_text.meta_data import MetaData
    out = []
    for c in case['items']:
        x = ExtractResult()
        x.start, x.length, x.text = c['start'], len(c['text']), c['text']
        x.type = 'time' if c['text'].endswith('3pm') else 'daterange'
        x.data = None
        x.meta_data = MetaData()
        x.meta_data.has_mod = True
        try:
            r = _ENMP.parse(x, parse_ref('2019-03-10T12:00:00'))
            out.append(None if r is None else [r.start, r.length, r.text, r.value is not None])
        except Exception as ex:
            out.append(type(ex).__name__)
    return {'out': out}


def h_dropzeros(case):
    """BaseIpParser.drop_leading_zeros on a list of strings (advisory binding of DropZeros.tla)"""
    from recognizers_sequence.sequence.parsers import BaseIpParser
    return {'out': [BaseIpParser.drop_leading_zeros(t) for t in case['texts']]}


def h_preprocess(case):
    """QueryProcessor.preprocess on strings written in the stand-in alphabet of Preprocess.tla (I = U+0130, F = U+FF15)"""
    from recognizers_text.utilities import QueryProcessor
    out = []
    for t, sens in case['items']:
        real = t.replace('I', '\u0130').replace('F', '\uff15')
        try:
            r = QueryProcessor.preprocess(real, sens)
            out.append(r.replace('\u0130', 'I').replace('i\u0307', 'i~'))
        except Exception as ex:
            out.append('!' + type(ex).__name__)
    return {'out': out}


_HANDLERS = {
    'preprocess': h_preprocess,
    'dropzeros': h_dropzeros,
    'modpushpop': h_modpushpop,
    'cjkint': h_cjkint,
    'digitalvalue': h_digitalvalue,
    'addmod': h_addmod,
    'generatedates': h_generatedates,
    'selectcands': h_selectcands,
    'choicematch': h_choicematch,
    'intvalue': h_intvalue,
    'mergemech': h_mergemech,
    'unit_tables': h_unit_tables,
    'purity_scenario': h_purity_scenario,
    'registered': h_registered,
    'history': h_history,
    'threads': h_threads,
    'schedule': h_schedule,
    'fingerprint': h_fingerprint,
    'collapse': h_collapse,
    'timex_roundtrip': h_timex_roundtrip,
    'timex_from': h_timex_from,
    'timex_resolve': h_timex_resolve,
    'timex_evaluate': h_timex_evaluate,
    'tokenize': h_tokenize,
    'match': h_match,
}
