"""code -> spec: hand recorded events to a Trace_* module; TLC evaluates the contract's verdict
on every event (sharded over several single-worker TLC processes)."""
import json
import os
import sys
from concurrent.futures import ThreadPoolExecutor

from . import common, tlc


def judge(work, module, events, cfg=None, shards=None, env=None, timeout=3600, heap='3g', min_shard=4000):
    """events: list of dicts each with a unique 'id'. Returns dict(n, nbad, bad=[(id, clause)],
    drift=[ids], states, transitions)."""
    n = len(events)
    if n == 0:
        return {'n': 0, 'nbad': 0, 'bad': [], 'drift': [], 'states': 0, 'transitions': 0, 'wall_s': 0.0}
    shards = shards or max(1, min(common.NPROC, n // min_shard + 1))
    per = (n + shards - 1) // shards
    jobs = []
    for k in range(shards):
        part = events[k * per:(k + 1) * per]
        if not part:
            continue
        path = os.path.join(work, '%s_events_%d.json' % (module, k))
        with open(path, 'w', encoding='utf-8') as f:
            json.dump(part, f, ensure_ascii=False)
        jobs.append((k, path, len(part)))

    def one(job):
        k, path, cnt = job
        e = dict(env or {})
        e['VERIF_EVENTS'] = path
        r = tlc.run(work, module, cfg=cfg or (module + '.cfg'), workers=1, env=e, timeout=timeout,
                    heap=heap, tag='%s_%d' % (module, k))
        return k, cnt, r

    out = {'n': 0, 'nbad': 0, 'bad': [], 'drift': [], 'states': 0, 'transitions': 0, 'wall_s': 0.0}
    with ThreadPoolExecutor(max_workers=len(jobs)) as ex:
        for k, cnt, r in ex.map(one, jobs):
            res = [p for p in r['prints'] if isinstance(p, list) and p and p[0] == 'RESULT']
            if r['rc'] != 0 or not res or not r['ok']:
                sys.stderr.write('MACHINERY: trace validation by %s failed (shard %d, rc=%s)\n%s\n'
                                 % (module, k, r['rc'], r['out'][-4000:]))
                raise SystemExit(2)
            p = res[-1]
            if p[1] != cnt:
                sys.stderr.write('MACHINERY: %s consumed %s of %s events\n' % (module, p[1], cnt))
                raise SystemExit(2)
            out['n'] += p[1]
            out['nbad'] += p[2]
            out['bad'] += [(b[0], b[1]) for b in p[3]]
            out['drift'] += list(p[4]) if len(p) > 4 else []
            out['states'] += r['distinct']
            out['transitions'] += max(r['generated'] - 1, 0)
            out['wall_s'] = max(out['wall_s'], r['wall_s'])
    return out
