"""Runs one C02 scenario in a fresh interpreter: reads a scenario as JSON on stdin, imports /repo's
packages, executes the calls as prescribed and prints the observations as JSON.
scenario: {"kind": "seq" | "threads" | "placement", "calls": [...] | "threads": [[...], ...]}
call: {"rid", "api", "text", "culture", "ref"}"""
import hashlib
import json
import sys
import threading


def main():
    from harness import common
    common.setup_sys_path()
    from harness import drivers
    scen = json.load(sys.stdin)
    drivers.init('all')

    def one(call):
        try:
            ents = drivers.recognize(call['api'], call['text'], call['culture'], call.get('ref'))
            proj = [drivers.proj_entity(r) for r in ents]
        except Exception as ex:
            proj = {'exception': type(ex).__name__}
        blob = json.dumps(proj, sort_keys=True, ensure_ascii=False)
        return {'rid': call['rid'], 'digest': hashlib.sha1(blob.encode('utf-8')).hexdigest()[:16], 'value': blob[:300]}

    out = []
    if scen['kind'] == 'seq':
        for k, c in enumerate(scen['calls']):
            o = one(c)
            o.update(thread='main', pos=k)
            out.append(o)
    elif scen['kind'] == 'placement':
        # every call once on the main thread and once on a fresh worker thread, in the given order
        for k, c in enumerate(scen['calls']):
            if scen.get('worker_first'):
                order = ['worker', 'main']
            else:
                order = ['main', 'worker']
            for where in order:
                if where == 'main':
                    o = one(c)
                else:
                    box = []
                    t = threading.Thread(target=lambda: box.append(one(c)))
                    t.start()
                    t.join()
                    o = box[0]
                o.update(thread=where, pos=k)
                out.append(o)
    elif scen['kind'] == 'threads':
        res = [[] for _ in scen['threads']]

        def work(k, calls):
            for j, c in enumerate(calls):
                o = one(c)
                o.update(thread='t%d' % k, pos=j)
                res[k].append(o)
        ths = [threading.Thread(target=work, args=(k, calls)) for k, calls in enumerate(scen['threads'])]
        for t in ths:
            t.start()
        for t in ths:
            t.join()
        for r in res:
            out.extend(r)
    json.dump(out, sys.stdout, ensure_ascii=False)


if __name__ == '__main__':
    main()
