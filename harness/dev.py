"""Developer helper: python -m harness.dev MODULE CFG [--dump] — run one TLC config and print a summary."""
import sys
from . import tlc, common
def main():
    mod, cfg = sys.argv[1], sys.argv[2]
    w = tlc.stage(common.WORK_ROOT + '/dev', {})
    r = tlc.run(w, mod, cfg=cfg, dump='--dump' in sys.argv, workers=(1 if '--w1' in sys.argv else None), coverage='--cov' in sys.argv)
    print('ok=%s generated=%s distinct=%s depth=%s violation=%s wall=%.1fs' % (r['ok'], r['generated'], r['distinct'], r['depth'], r['violation'], r['wall_s']))
    if not r['ok'] or '--out' in sys.argv:
        print(r['out'][-6000:])
    for p in r['prints'][:20]:
        print('PRINT', str(p)[:2000])
main()
