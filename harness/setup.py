"""./check --setup : offline sanity of the framework (tools, imports of /repo through the shims,
SANY over every module, the seconds-long smoke model checks)."""
import os
import shutil
import subprocess
import sys

from . import common, tlc

SMOKE = [
    # (module, cfg, expect_violation)
]


def run():
    ok = True
    for tool in ('java',):
        if shutil.which(tool) is None:
            print('setup: missing tool', tool)
            ok = False
    if not os.path.exists(tlc.JAR):
        print('setup: missing', tlc.JAR)
        ok = False
    common.setup_sys_path()
    from . import drivers
    try:
        drivers.init('all')
        print('setup: /repo packages import through shims: ok')
    except SystemExit:
        raise
    except Exception as ex:
        print('setup: import of /repo packages failed:', ex)
        ok = False
    wd = common.WorkDir('setup')
    try:
        work = tlc.stage(wd.sub('spec'), {})
        mods = sorted(f[:-4] for f in os.listdir(work) if f.endswith('.tla'))
        bad = []
        from concurrent.futures import ThreadPoolExecutor
        with ThreadPoolExecutor(max_workers=8) as ex:
            for m, (good, out) in zip(mods, ex.map(lambda m: tlc.sany(work, m), mods)):
                if not good:
                    bad.append(m)
                    print('setup: SANY failed for %s\n%s' % (m, out[-1500:]))
        print('setup: SANY over %d modules: %s' % (len(mods), 'ok' if not bad else 'FAILED ' + ','.join(bad)))
        ok = ok and not bad
        from . import smoke
        ok = smoke.run(work) and ok
    finally:
        wd.cleanup()
    os.makedirs(common.EVIDENCE, exist_ok=True)
    print('setup:', 'ok' if ok else 'FAILED')
    return 0 if ok else 1
