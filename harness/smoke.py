"""Seconds-long model checks run at setup: each entry is (module, cfg, expected invariant
violation or None).  Regression configurations that must *fail* document design-level
counterexamples (e.g. the pre-fix TIMEX formatter)."""
from . import tlc

SMOKE = [
    ('TimexMech', 'MC_Timex_smoke.cfg', None),
    ('TimexMech', 'MC_Timex_prefix.cfg', 'MechContract'),
    ('ConstraintCollapse', 'MC_Collapse.cfg', None),
    ('ConstraintCollapse', 'MC_Collapse_prefix.cfg', 'NoGrowth'),
    ('MC_Calendar', 'MC_Calendar_smoke.cfg', None),
    ('Tokenizer', 'MC_Tokenizer_smoke.cfg', None),
    ('Trie', 'MC_Trie_smoke.cfg', None),
    ('MC_ModelCache', 'MC_ModelCache_prefixcode.cfg', 'ReturnedForKey'),
    ('MergeMech', 'MC_Merge_sweep.cfg', None),
    ('MergeMech', 'MC_Merge_tokens.cfg', None),
    ('MergeMech', 'MC_Merge_addto_prefix.cfg', 'AddDisjoint'),
    ('Purity', 'MC_Purity_threadctx.cfg', 'ParsePure'),
    ('IntValue', 'MC_IntValue_smoke.cfg', None),
    ('ChoiceMatch', 'MC_ChoiceMatch.cfg', ('ScoreInUnit', 'NoRaise')),
    ('ChoiceMatch', 'MC_ChoiceMatch_fixed.cfg', None),
    ('SelectCandidates', 'MC_SelectCandidates.cfg', None),
    ('SelectCandidates', 'MC_SelectCandidates_prefix.cfg', 'Disjoint'),
    ('GenerateDates', 'MC_GenerateDates_timeofday.cfg', 'MeetsContract'),
    ('RelPeriodMech', 'MC_RelPeriod_prefix.cfg', 'MeetsContract'),
    ('AddMod', 'MC_AddMod_prefix.cfg', ('InBounds', 'TextIsSlice')),
    ('AddMod', 'MC_AddMod_adjacent.cfg', 'OnlyAdjacent'),
    ('AddMod', 'MC_AddMod_unbounded.cfg', 'Disjoint'),
    ('DigitalValue', 'MC_DigitalValue_prefix.cfg', 'MeetsLiteral'),
    ('ModPushPop', 'MC_ModPushPop_noreset.cfg', 'Restored'),
    ('Preprocess', 'MC_Preprocess_prefix.cfg', 'SameLength'),
    ('RelPeriodMech', 'MC_RelPeriod_weekend.cfg', 'WeekendIsoYear'),
]


def run(work):
    ok = True
    for mod, cfg, expect in SMOKE:
        r = tlc.run(work, mod, cfg=cfg, timeout=900)
        got = r['violation']
        good = ((got in expect) if isinstance(expect, tuple) else (got == expect)) and (r['ok'] or expect is not None)
        print('setup: smoke %s/%s: %d states, violation=%s (expected %s): %s'
              % (mod, cfg, r['distinct'], got, expect, 'ok' if good else 'FAILED'))
        if not good:
            print(r['out'][-1500:])
        ok = ok and good
    return ok
