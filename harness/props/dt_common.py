"""Shared pieces of the generated date-time checks C06-C10."""
import re

from .. import common, flow

TRACE = ('Trace_DT', 'Trace_DT.cfg')
ASSUME = common.STD_ASSUMPTIONS + [common.SHIM_ASSUMPTION, 'Calendar.tla is model-checked day by day for 1900..2100 (MC_Calendar)']


def unescape(s):
    """'{e4}' in a specification string stands for the code point U+00E4 (see RTStrings.tla)."""
    return re.sub(r'\{([0-9a-f]{2,6})\}', lambda m: chr(int(m.group(1), 16)), s)


def case_of(st):
    c = st['c']
    return {'api': 'datetime', 'text': unescape(c['text']), 'culture': c['culture'], 'ref': c['ref'], 'opt': c.get('opt', 0), 'c': c}


def one(e):
    return len(e['obs'].get('ents', [])) == 1 and 'values' in e['obs']['ents'][0]['res'] and e['obs']['ents'][0]['s'] == e['c']['s']


def _shift(e):
    e['obs']['ents'][0]['e'] += 1
    return e


def _value(e):
    v = e['obs']['ents'][0]['res']['values'][0]
    k = 'value' if 'value' in v else 'start'
    v[k] = v[k][:-1] + ('0' if v[k][-1] != '0' else '1')
    return e


def _timex(e):
    e['obs']['ents'][0]['res']['values'][0]['timex'] += 'X'
    return e


def _type(e):
    e['obs']['ents'][0]['type'] = 'datetimeV2.set'
    return e


def _extra(e):
    e['obs']['ents'][0]['res']['values'].append(dict(e['obs']['ents'][0]['res']['values'][0], timex='T99'))
    return e


def _none(e):
    e['obs']['ents'] = []
    return e


CORRUPTORS = [(one, _shift), (one, _value), (one, _timex), (one, _type), (one, _extra), (one, _none)]
