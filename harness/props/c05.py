"""C05 - Every listed unit spelling maps to its canonical unit and keeps the number."""
import copy
import json
import os
import random
import time

from .. import common, tlc, pool, judge, flow

PROP = 'C05'
TRACE = ('Trace_Units', 'Trace_Units.cfg')
DEC = {'en-us': '.', 'es-mx': '.', 'ja-jp': '.', 'zh-cn': '.'}
NUMERALS = [('12', ''), ('3', '5'), ('1', ''), ('250', ''), ('2', ''), ('3', '')]
AMOUNTS = [(1, 1), (2, 50), (10, 5), (100, 99), (7, 3), (1, 14), (12, 59)]   # the last two are not exact in binary floating point
CONNECT = {'en-us': 'and', 'es-es': 'y', 'es-mx': 'y', 'fr-fr': 'et', 'pt-br': 'e', 'it-it': 'e', 'de-de': 'und', 'nl-nl': 'en'}


def num_text(cul, k):
    i, f = NUMERALS[k - 1]
    return i + ((DEC.get(cul, ',') + f) if f else '')


def run(tier):
    t0 = time.time()
    rnd = random.Random(common.seed())
    wd = common.WorkDir(PROP)
    V = common.Verdicts(PROP)
    try:
        work = tlc.stage(wd.sub('spec'), {})
        tables = pool.run_cases([{'api': 'unit_tables'}], init_name='unit', batch=1, timeout=600)[0]
        if 'entries' not in tables:
            print('MACHINERY: could not read the unit tables: %s' % (tables,))
            return 2
        entries, pairs = tables['entries'], tables['pairs']
        # listing: which canonical units list a surface within one (culture, type) table family (table look-up, no behaviour)
        listing = {}
        for e in entries:
            listing.setdefault((e['culture'], e['type'], e['surface'].lower()), {})[e['unit']] = e['iso']
        usable = [k for k, e in enumerate(entries) if not e['ambiguous']]
        if tier == 'quick':
            by_unit = {}
            for k in usable:
                e = entries[k]
                by_unit.setdefault((e['culture'], e['type'], e['unit'], e['side']), []).append(k)
            pick_e = {rnd.choice(v) for v in by_unit.values()}
            # spellings with capital letters are always taken: the few that work do so because the pre-processing of the
            # case-sensitive models protects them (GB, MB, kB ...); the others are listed findings
            pick_e |= {k for k in usable if any(ch.isupper() for ch in entries[k]['surface']) and entries[k]['surface'].isascii()}
            pick_e = sorted(pick_e)
            okp = [k for k, p in enumerate(pairs) if p['main_surfaces'] and p['fraction_surfaces']]
            nonstd = [k for k in okp if pairs[k]['ratio'] != 100]          # every pair with an unusual ratio (5, 10, 4, 20, 1000)
            std = [k for k in okp if pairs[k]['ratio'] == 100]
            pick_p = sorted(nonstd + rnd.sample(std, min(150, len(std))))
        else:
            pick_e = usable
            pick_p = [k for k, p in enumerate(pairs) if p['main_surfaces'] and p['fraction_surfaces']]
        # a spelling that contains the digit 2 or 3 is also combined with that digit as the numeral
        digits = [[k, 5 if d == '2' else 6] for k in usable for d in ('2', '3') if d in entries[k]['surface']]
        if tier == 'quick':
            digits = [x for n_, x in enumerate(digits) if n_ % 3 == 0 or entries[x[0]]['culture'] == 'en-us']
        pickfile = os.path.join(work, 'pick.json')
        json.dump({'entries': pick_e, 'pairs': pick_p, 'digits': digits}, open(pickfile, 'w'))
        gen = tlc.run(work, 'Gen_Units', cfg='Gen_Units.cfg', dump=True, env={'VERIF_PICK': pickfile}, timeout=3000)
        tlc.require_ok(gen, 'Gen_Units')
        cases = []
        for st in tlc.read_dump(gen['dump'], where='pc = "done"'):
            g = st['c']
            if g['kind'] == 'single':
                e = entries[g['idx']]
                cul = e['culture']
                num = num_text(cul, g['num'])
                # Chinese / Japanese text is written without a space between number and unit
                cjk = cul in ('zh-cn', 'ja-jp')
                if e['side'] == 'suffix':
                    text = num + ('' if cjk else ' ') + e['surface']
                else:
                    text = e['surface'] + ('' if cjk else ' ') + num
                units = listing[(cul, e['type'], e['surface'].lower())]
                c = {'kind': 'single', 'culture': cul, 'type': e['type'], 'len': len(text), 'units': sorted(units), 'isos': [units[u] for u in sorted(units)], 'num': g['num']}
                cases.append({'api': e['type'], 'culture': cul, 'text': text, 'c': c, 'entry': {k: e[k] for k in ('unit', 'surface', 'side')}})
            else:
                p = pairs[g['idx']]
                cul = p['culture']
                if cul not in CONNECT:
                    continue
                n, m = AMOUNTS[g['amt'] - 1]
                if 1000 % p['ratio'] != 0:
                    continue
                ms, fs = p['main_surfaces'][0], p['fraction_surfaces'][0]
                text = '%d %s %s %d %s' % (n, ms, CONNECT[cul], m, fs)
                units = listing[(cul, 'currency', ms.lower())]
                c = {'kind': 'compound', 'culture': cul, 'type': 'currency', 'len': len(text), 'units': sorted(units), 'isos': [units[u] for u in sorted(units)],
                     'n': n, 'm': m, 'ratio': p['ratio']}
                cases.append({'api': 'currency', 'culture': cul, 'text': text, 'c': c, 'entry': {'main': p['main'], 'fraction': p['fraction'], 'ratio': p['ratio']}})
        cases.sort(key=lambda x: json.dumps([x['culture'], x['api'], x['text']], ensure_ascii=False))
        obs = pool.run_cases(cases, init_name='unit', batch=200, timeout=15.0, progress=PROP)
        events = [{'id': i, 'c': c['c'], 'obs': o} for i, (c, o) in enumerate(zip(cases, obs)) if not o.get('timeout')]
        res = judge.judge(work, 'Trace_Units', events, min_shard=3000)
        # binding self-test
        src = next((e for e in events if e['c']['kind'] == 'single' and len(e['obs'].get('ents', [])) == 1 and e['obs']['ents'][0]['s'] == 0
                    and e['obs']['ents'][0]['e'] == e['c']['len'] - 1 and e['obs']['ents'][0]['res'].get('unit') in e['c']['units']), None)
        cmp_ = next((e for e in events if e['c']['kind'] == 'compound' and len(e['obs'].get('ents', [])) == 1 and e['obs']['ents'][0]['e'] == e['c']['len'] - 1), None)
        if src is None or cmp_ is None:
            print('MACHINERY: no conforming event for the self-test')
            return 2
        st = []
        a = copy.deepcopy(src); a['obs']['ents'][0]['res']['unit'] = 'Furlong per fortnight'; st.append(a)
        b = copy.deepcopy(src); b['obs']['ents'][0]['res']['value'] = '13'; st.append(b)
        c2 = copy.deepcopy(src); c2['obs']['ents'][0]['e'] -= 1; st.append(c2)
        d = copy.deepcopy(cmp_); d['obs']['ents'][0]['res']['value'] = str(d['c']['n']); st.append(d)
        st.append(copy.deepcopy(src))
        for j, e in enumerate(st):
            e['id'] = j
        rs = judge.judge(work, 'Trace_Units', st, shards=1)
        if sorted(b[0] for b in rs['bad']) != [0, 1, 2, 3]:
            print('MACHINERY: binding self-test failed: %s' % (rs['bad'],))
            return 2
        dump = os.environ.get('VERIF_DUMP_BAD')
        if dump:
            with open(dump, 'w', encoding='utf-8') as fh:
                for eid, clause in res['bad']:
                    fh.write(json.dumps({'case': {k: v for k, v in cases[eid].items() if k != 'c'}, 'clause': clause, 'observed': obs[eid]}, ensure_ascii=False) + '\n')
        for eid, clause in res['bad']:
            cs = cases[eid]
            key = {'culture': cs['culture'], 'type': cs['api'], 'kind': cs['c']['kind'], 'clause': clause.split(':')[0]}
            key.update(cs['entry'])
            sf = cs['entry'].get('surface') or cs['text']
            key['surface_class'] = ('space' if sf != sf.strip() else 'upper' if any(ch.isupper() for ch in sf) else
                                    'punct' if any(ch in "./'-" for ch in sf) else 'plain')
            V.violation(key, {'case': cs, 'observed': obs[eid], 'clause': clause})
        if res['nbad'] > len(res['bad']):
            V.note('%d failing events in total; first %d reported' % (res['nbad'], len(res['bad'])))
        from .. import mechbind
        mech_info = mechbind.compound_merge(work, V)
        rc = V.finish()
        common.write_evidence(PROP, tier, 'model_checking', {
            'states': gen['distinct'] + res['states'] + sum(m['distinct_states'] for m in mech_info), 'transitions': gen['generated'] + res['transitions'] + sum(m['distinct_states'] for m in mech_info),
            'mech_model_checks': mech_info,
            'traces_validated_against_impl': res['n'],
            'samples': [{'case': {k: v for k, v in c.items() if k != 'c'}, 'expect': c['c'], 'observed': o} for c, o in flow.sample_evenly(list(zip(cases, obs)), 5)],
            'evaluations': len(cases),
            'distinct_nontrivial': len({(c['culture'], c['api'], c['text']) for c, o in zip(cases, obs) if o.get('ents')}),
            'rule': 'table snapshot of the running configuration: %d (culture, type, unit, surface, side) entries (%d not flagged ambiguous) and %d main/fraction currency pairs; '
                    'Gen_Units (TLC) combines the picked entry indices with 2 numerals and the picked pairs with 7 amounts; texts are built from the indices by the harness; '
                    'every call is judged by TLC (Trace_Units: one entity, whole span, unit among the canonical units listing the spelling, value, ISO code, N + M/ratio); '
                    '%s' % (len(entries), len(usable), len(pairs), 'quick: one seeded surface per (culture, type, unit, side) and 250 seeded pairs' if tier == 'quick' else 'thorough: every entry and every pair'),
            'exhaustive': tier == 'thorough', 'entries_picked': len(pick_e), 'pairs_picked': len(pick_p), 'binding_selftest': 'passed',
            'failing_events': res['nbad'], 'known_findings_hit': sorted(V.known_hits),
        }, time.time() - t0, len(V.new), common.STD_ASSUMPTIONS + ['the table snapshot (attribute reads of the configuration objects) is faithful; spellings the configuration itself lists as ambiguous are skipped'])
        return rc
    finally:
        wd.cleanup()


def replay(path):
    rec = json.load(open(path, encoding='utf-8'))
    c = rec['detail']['case']
    wd = common.WorkDir(PROP + 'r')
    try:
        work = tlc.stage(wd.sub('spec'), {})
        o = pool.run_cases([c], init_name='unit', batch=1, timeout=30)[0]
        res = judge.judge(work, 'Trace_Units', [{'id': 0, 'c': c['c'], 'obs': o}], shards=1)
        print(json.dumps({'case': c, 'observed': o, 'verdict': res['bad']}, ensure_ascii=False, indent=1))
        if res['nbad']:
            print('VIOLATION property=%s replay=%s' % (PROP, path))
            return 1
        return 0
    finally:
        wd.cleanup()
