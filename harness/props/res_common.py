"""Recorded date-time traces judged entity by entity (C11: Resolution; C10 part 3: triples)."""
import copy
import json
import random

from .. import common, pool, judge, flow, corpus, tlc

REFS_ALWAYS = ['2019-02-28T09:00:00', '2020-02-29T23:59:59', '2019-12-31T12:00:00', '2020-01-01T00:00:00', '2016-11-07T00:00:00',
               '1950-01-01T06:00:00', '2089-12-31T18:30:00', '2019-01-31T12:00:00', '2019-03-31T08:00:00', '2024-12-29T10:00:00']


def event_of(i, o):
    if o.get('exception'):
        return {'id': i, 'exception': o['exception'], 'ents': []}
    return {'id': i, 'ents': [{'type': e['type'], 'res': e['res']} for e in o.get('ents', [])]}


def corpus_cases(tier, rnd, extra_refs):
    """Specs date-time inputs under their own reference and under further references.  The choice
    is a function of the text only (not of VERIF_SEED): quick takes `extra_refs` references picked by
    a stable hash of the text, thorough takes all of REFS_ALWAYS."""
    import hashlib
    out = []
    for c in corpus.model_cases():
        if c['api'] != 'datetime':
            continue
        base = {'api': 'datetime', 'text': c['text'], 'culture': c['culture'], 'src': 'specs:%s#%d' % (c['file'], c['index'])}
        out.append(dict(base, ref=c['ref'] or '2019-03-10T12:00:00'))
        if tier == 'thorough':
            refs = REFS_ALWAYS
        else:
            h = int(hashlib.sha1(c['text'].encode('utf-8')).hexdigest(), 16)
            refs = [REFS_ALWAYS[(h + k * 3) % len(REFS_ALWAYS)] for k in range(extra_refs)]
        for r in refs:
            out.append(dict(base, ref=r))
    return out


def judge_cases(work, cases, obs, mode):
    events = [event_of(i, o) for i, o in enumerate(obs) if not o.get('timeout')]
    res = judge.judge(work, 'Trace_Resolution', events, env={'VERIF_WHICH': mode}, min_shard=3000)
    return events, res


def selftest(work, events, mode):
    if mode == 'triple':
        src = next((e for e in events for x in e['ents'] if 'values' in x['res'] and any(v.get('timex', '').startswith('(20') and 'start' in v and 'end' in v for v in x['res']['values'])), None)
    else:
        src = next((e for e in events if e['ents'] and 'values' in e['ents'][0]['res'] and e['ents'][0]['res']['values'] and e['ents'][0]['res']['values'][0].get('type') == 'date'
                    and e['ents'][0]['res']['values'][0].get('timex', '')[:2] in ('19', '20')), None)
    if src is None:
        return None
    st = []
    if mode == 'triple':
        a = copy.deepcopy(src)
        for x in a['ents']:
            for v in x['res'].get('values', []):
                if v.get('timex', '').startswith('(20') and 'end' in v:
                    v['end'] = v['start']
        st.append(a)
        b = copy.deepcopy(src)
        for x in b['ents']:
            for v in x['res'].get('values', []):
                if v.get('timex', '').startswith('(20'):
                    v['timex'] = v['timex'].replace(',P', ',P1')
        st.append(b)
    else:
        a = copy.deepcopy(src); a['ents'][0]['res']['values'][0]['value'] = '2019-02-30'; st.append(a)
        b = copy.deepcopy(src); b['ents'][0]['type'] = 'datetimeV2.time'; st.append(b)
        c = copy.deepcopy(src); v = c['ents'][0]['res']['values'][0]; v['value'] = v['value'][:-1] + ('1' if v['value'][-1] != '1' else '2'); st.append(c)
    st.append(copy.deepcopy(src))
    for j, e in enumerate(st):
        e['id'] = j
    rs = judge.judge(work, 'Trace_Resolution', st, env={'VERIF_WHICH': mode}, shards=1)
    want = list(range(len(st) - 1))
    return sorted(b[0] for b in rs['bad'] if b[0] in want) == want


def key_of(case, clause, obs_entry):
    import re
    m = re.search(r'\[entity (\d+)\]', clause)
    ents = obs_entry.get('ents') or []
    et = ents[int(m.group(1)) - 1]['type'] if m and int(m.group(1)) <= len(ents) else ''
    return {'culture': case['culture'], 'text': case['text'], 'ref': case['ref'], 'etype': et, 'clause': clause.split(':')[0]}
