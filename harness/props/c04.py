"""C04 - Spelled-out cardinals and ordinals resolve to the integer they denote."""
from .. import common, flow
from . import dt_common as d

PROP = 'C04'
TRACE = ('Trace_NumWords', 'Trace_NumWords.cfg')


def case_of(st):
    c = st['c']
    return {'api': c['api'], 'text': d.unescape(c['text']), 'culture': c['culture'], 'c': c}


def key_of(case, clause):
    c = case['c']
    return {'culture': c['culture'], 'model': c['api'], 'variant': c['variant'], 'size': c['size'], 'shape': c.get('shape', ''), 'text': c['text'], 'clause': clause.split(':')[0]}


one = lambda e: len(e['obs'].get('ents', [])) == 1 and 'value' in e['obs']['ents'][0]['res'] and e['obs']['ents'][0]['s'] == e['c']['s']


def _val(e):
    v = e['obs']['ents'][0]['res']['value']
    e['obs']['ents'][0]['res']['value'] = v[:-1] + ('1' if v[-1] != '1' else '2')
    return e


def _span(e):
    e['obs']['ents'][0]['e'] -= 1
    return e


def _split(e):
    e['obs']['ents'].append(dict(e['obs']['ents'][0]))
    return e


def gens(tier):
    g = [{'module': 'Gen_NumWords_en', 'cfg': 'Gen_NumWords_en_%s.cfg' % tier},
         {'module': 'Gen_NumWords_intl', 'cfg': 'Gen_NumWords_intl_%s.cfg' % tier}]
    return g


def make_post(tier):
    def _post(work, V, cases, obs):
        return _post_tier(work, V, tier)
    return _post


def _post_tier(work, V, tier):
    from .. import mechbind
    info = mechbind.int_value(work, V) + mechbind.cjk_int_value(work, V, tier)
    return {'mech_model_checks': info, 'states': sum(m['distinct_states'] for m in info), 'transitions': sum(m['distinct_states'] for m in info)}


def run(tier):
    return flow.run_standard(
        PROP, tier, gens=gens(tier), case_of=case_of, trace=('Trace_NumWords_intl', 'Trace_NumWords_intl.cfg'), key_of=key_of,
        corruptors=[(one, _val), (one, _span), (one, _split)], init_name='number', batch=300, timeout=15.0,
        rule='cases = terminal states of Gen_NumWords_en (%s): every n below Small, every 10^k and 10^k +/- 1 below 10^15, all pairs of groups from the limb pool, sparse and repeated multi-group '
             'numbers, x {with/without "and"} x {hyphen/space} x {cardinal, ordinal}; Spell / SpellOrdinal and the decimal digits are computed by TLC on base-1000 group sequences; '
             'replayed into recognize_number / recognize_ordinal; plus Gen_NumWords_intl: the cardinals of es-es, fr-fr, de-de, zh-cn, ja-jp for the generated range (grammars written in NumWords_intl.tla); verdict by TLC (Trace_NumWords_intl, same relation for all)' % tier,
        assumptions=common.STD_ASSUMPTIONS, exhaustive=True, post=make_post(tier))


def replay(path):
    return flow.replay_standard(PROP, path, ('Trace_NumWords_intl', 'Trace_NumWords_intl.cfg'), 'number')
