"""C06 - Absolute calendar dates are recognised exactly, whatever the reference date."""
from .. import flow
from . import dt_common as d

PROP = 'C06'


def key_of(case, clause):
    c = case['c']
    k = {'culture': c['culture'], 'layout': c['layout'], 'text': c['text'], 'clause': clause.split(':')[0]}
    if c.get('opt'):
        k['opt'] = c['opt']
    return k


def run(tier):
    return flow.run_standard(
        PROP, tier, gens=[{'module': 'Gen_DateAbs', 'cfg': 'Gen_DateAbs_%s.cfg' % tier}],
        case_of=d.case_of, trace=d.TRACE, key_of=key_of, corruptors=d.CORRUPTORS, init_name='datetime', batch=40, timeout=20.0,
        rule='cases = terminal states of Gen_DateAbs (%s): dates x layouts (English: ISO, m/d/yyyy, mm/dd/yyyy, m-d-yyyy, Month d yyyy, Month dth yyyy, d Month yyyy, '
             'dth of Month yyyy, Mon d yyyy, yyyy-m-d; English also in calendar mode; other cultures: ISO, dd/mm/yyyy, dd-mm-yyyy, d/m/yyyy, d-m-yyyy, d <month name> yyyy with and '
             'without the culture\'s ordinal mark on the day) x reference datetimes x carriers; each replayed into '
             'recognize_datetime; verdict by TLC (Trace_DT: one entity, exact span, type date, timex = value = YYYY-MM-DD)' % tier,
        assumptions=d.ASSUME, exhaustive=True)


def replay(path):
    return flow.replay_standard(PROP, path, d.TRACE, 'datetime', timeout=30.0)
