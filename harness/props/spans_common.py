"""Shared driver of C01 (spans) and C12 (overlaps): record entities of real model calls over the
Specs corpus, generated expressions and noise, and let TLC judge them with Spans.tla."""
import copy
import json
import random
import re
import time

from .. import common, tlc, pool, judge, flow, corpus

TYPE_API = {v: k[1] for k, v in {}.items()}
API_OF_TYPE = {t: api for (rec, t), api in corpus.MODEL_API.items()}

CARRIERS = ['{}', 'I said {} yesterday.', '({})', 'x {} , ok']


def lower1(cp):
    """Length-preserving lower-casing of one code point (Python's own str.lower, kept only when it
    yields exactly one code point)."""
    l = chr(cp).lower()
    return ord(l) if len(l) == 1 else cp


def cps(s):
    return [ord(c) for c in s]


def event_of(idx, case, o):
    if o.get('exception'):
        return {'id': idx, 'exception': o['exception'], 'ql': [], 'ents': []}
    q = case['text']
    return {'id': idx, 'ql': [lower1(ord(c)) for c in q],
            'ents': [{'s': e['s'], 'e': e['e'], 'tl': [lower1(ord(c)) for c in e['text']]} for e in o['ents']]}


def registered_pairs():
    reg = pool.run_cases([{'api': 'registered'}], init_name='all', batch=1, timeout=120)[0]
    out = []
    for t, c in reg['pairs']:
        if t in API_OF_TYPE:
            out.append((API_OF_TYPE[t], c))
    return sorted(set(out))


def build_cases(work, tier, rnd, gen_exprs=None):
    cases = []
    # 1. the Specs corpus, each input against its own model
    for c in corpus.model_cases():
        cases.append({'api': c['api'], 'culture': c['culture'], 'text': c['text'], 'ref': c['ref'], 'src': 'specs:%s#%d' % (c['file'], c['index'])})
    n_corpus = len(cases)
    pairs = registered_pairs()
    # 2. noise from the TLA+ generator against every registered (model, culture) pair
    g1, st = flow.generate(work, 'Gen_Noise', 'Gen_Noise_2.cfg')
    poolp = next(p for p in g1['prints'] if p and p[0] == 'POOL')
    ptoks, pspaces = poolp[1], poolp[2]

    def text_of(s):
        out = ''
        for k, (t, x) in enumerate(zip(s['toks'], s['sp'])):
            out += ('' if k == 0 else pspaces[x - 1]) + ptoks[t - 1]
        return out
    texts = sorted({text_of(s) for s in st})
    g2, walks = flow.simulate(work, 'Gen_Noise', 'Gen_Noise_walk.cfg', 150 if tier == 'quick' else 1500, 14, common.seed(), where_val='grow')
    wtexts = sorted({text_of(s) for s in walks if s.get('toks')})
    irregular = ('İ', 'ẞ', 'ﬁ', 'K', 'ß')
    special = [t for t in texts if t.startswith(irregular)]
    rest = [t for t in texts if not t.startswith(irregular)]
    rnd.shuffle(special)
    rnd.shuffle(rest)
    if tier == 'quick':
        take = special[:180] + rest[:180] + wtexts
    else:
        take = special + rest[:5000] + wtexts
    # planned four-token texts: case-irregular letter, protected unit letter, entities (every one, against the number and
    # unit models of every culture: both pre-processing steps of those models meet in one query)
    g2b, stp = flow.generate(work, 'Gen_Noise', 'Gen_Noise_plan.cfg')
    ptexts = sorted({text_of(s) for s in stp})
    for t in ptexts:
        for api, cul in pairs:
            if api in ('number', 'ordinal', 'percentage', 'currency', 'dimension', 'temperature', 'age') and (tier == 'thorough' or cul in ('en-us', 'de-de', 'fr-fr')):
                cases.append({'api': api, 'culture': cul, 'text': t, 'ref': None, 'src': 'noise-plan'})
    cultures = sorted({c for _, c in pairs})
    for n, t in enumerate(take):
        if tier == 'thorough' or n % 6 == 0:
            use = pairs                                   # against every registered (model, culture) pair
        else:
            pick = {'en-us'} | set(rnd.sample(cultures, 2))
            use = [p for p in pairs if p[1] in pick]
        for api, cul in use:
            cases.append({'api': api, 'culture': cul, 'text': t, 'ref': '2019-03-10T12:00:00', 'src': 'noise'})
    # 3. corpus inputs against the other models of the same culture family (multi-entity sentences).
    #    The selection of 3. and 4. is a fixed function of the corpus, not of VERIF_SEED: sentences made of Specs inputs
    #    are an open-ended population in which the merged extractors have input-specific defects; a fixed selection is
    #    triaged once (fixes / known findings), the seed varies the noise of 2. only.
    specs = corpus.model_cases()
    rnd = random.Random(20261003)
    rnd.shuffle(specs)
    for c in specs[:250 if tier == 'quick' else 3000]:
        for api, cul in pairs:
            if cul == c['culture'] and api != c['api']:
                cases.append({'api': api, 'culture': cul, 'text': c['text'], 'ref': c['ref'] or '2019-03-10T12:00:00', 'src': 'cross'})
    # 4. two corpus inputs of the same model joined by filler (several entities per sentence)
    by = {}
    for c in specs:
        by.setdefault((c['api'], c['culture']), []).append(c)
    fillers = [' and ', ', then ', ' ; ', ' or maybe ', ' ']
    for (api, cul), lst in sorted(by.items()):
        k = 15 if tier == 'quick' else 250
        for _ in range(min(k, len(lst))):
            a, b = rnd.choice(lst), rnd.choice(lst)
            if len(a['text']) + len(b['text']) > 160:
                continue
            cases.append({'api': api, 'culture': cul, 'text': a['text'] + rnd.choice(fillers) + b['text'], 'ref': a['ref'] or '2019-03-10T12:00:00', 'src': 'joined'})
    # 5. generated well-formed expressions embedded in carriers: modifiers x date-time expressions, and the
    #    expression generators of the other contracts (quick configurations)
    g3, st3 = flow.generate(work, 'Gen_Mods', 'Gen_Mods.cfg')
    for s_ in st3:
        cases.append({'api': 'datetime', 'culture': s_['c']['culture'], 'text': s_['c']['text'], 'ref': s_['c']['ref'], 'src': 'generated:Gen_Mods'})
    extra_states = g3['distinct']
    from . import dt_common as _du
    g4, st4 = flow.generate(work, 'Gen_UnitSeq', 'Gen_UnitSeq.cfg')
    st4.sort(key=lambda s_: json.dumps(s_['c'], sort_keys=True))
    for s_ in (st4 if tier == 'thorough' else [x for k_, x in enumerate(st4) if k_ % 3 == 0 or x['c']['culture'] == 'zh-cn']):
        for api in ('currency', 'dimension'):
            cases.append({'api': api, 'culture': s_['c']['culture'], 'text': _du.unescape(s_['c']['text']), 'ref': None, 'src': 'generated:Gen_UnitSeq'})
    extra_states += g4['distinct']
    from . import dt_common as _d
    for mod, cfg, api_of in (('Gen_DateAbs', 'Gen_DateAbs_quick.cfg', lambda c: 'datetime'), ('Gen_ClockTime', 'Gen_ClockTime_quick.cfg', lambda c: 'datetime'),
                             ('Gen_RelDate', 'Gen_RelDate_quick.cfg', lambda c: 'datetime'), ('Gen_DurRange', 'Gen_DurRange_quick.cfg', lambda c: 'datetime'),
                             ('Gen_NumLiteral', 'Gen_NumLiteral_quick.cfg', lambda c: c['api']), ('Gen_Choice', 'Gen_Choice.cfg', lambda c: 'boolean')):
        g, stx = flow.generate(work, mod, cfg)
        stx.sort(key=lambda s_: json.dumps(s_['c'], sort_keys=True, ensure_ascii=False))
        extra_states += g['distinct']
        for k_, s_ in enumerate(flow.sample_evenly(stx, 400 if tier == 'quick' else 4000)):
            c = s_['c']
            t = _d.unescape(c['text'])
            carrier = CARRIERS[(len(t) + k_) % len(CARRIERS)]
            cases.append({'api': api_of(c), 'culture': c.get('culture', 'en-us'), 'text': carrier.format(t), 'ref': c.get('ref') or '2019-03-10T12:00:00', 'src': 'generated:' + mod})
    # the range expressions of C10 / C11: every zh-cn one, a sample of the English ones
    g5, st5 = flow.generate(work, 'Gen_Ranges', 'Gen_Ranges.cfg')
    st5.sort(key=lambda s_: json.dumps(s_['c'], sort_keys=True, ensure_ascii=False))
    zh5 = [s_ for s_ in st5 if s_['c']['culture'] == 'zh-cn']
    en5 = [s_ for s_ in st5 if s_['c']['culture'] != 'zh-cn']
    for s_ in zh5 + flow.sample_evenly(en5, 150 if tier == 'quick' else 2000):
        cases.append({'api': 'datetime', 'culture': s_['c']['culture'], 'text': _d.unescape(s_['c']['text']), 'ref': s_['c']['ref'], 'src': 'generated:Gen_Ranges'})
    extra_states += g5['distinct']
    gens = [{'module': 'Gen_Mods + Gen_Ranges + expression generators of C03, C06-C08, C10, C20', 'cfg': 'quick configurations', 'distinct_states': extra_states},
            {'module': 'Gen_Noise', 'cfg': 'Gen_Noise_2.cfg', 'distinct_states': g1['distinct']},
            {'module': 'Gen_Noise', 'cfg': 'Gen_Noise_walk.cfg (simulate)', 'distinct_states': g2['generated']},
            {'module': 'Gen_Noise', 'cfg': 'Gen_Noise_plan.cfg', 'distinct_states': g2b['distinct']}]
    return cases, gens, g1['distinct'] + g2['generated'] + extra_states, g1['generated'] + g2['generated'] + 2 * extra_states


def run(prop, tier, which):
    t0 = time.time()
    rnd = random.Random(common.seed())
    wd = common.WorkDir(prop)
    V = common.Verdicts(prop)
    try:
        work = tlc.stage(wd.sub('spec'), {})
        cases, gens, gstates, gtrans = build_cases(work, tier, rnd)
        seen = set()
        uniq = []
        for c in cases:
            k = (c['api'], c['culture'], c['text'], c['ref'])
            if k not in seen:
                seen.add(k)
                uniq.append(c)
        cases = uniq
        obs = pool.run_cases(cases, init_name='all', timeout=20.0, batch=40, progress=prop)
        events, inconclusive = [], 0
        for i, (c, o) in enumerate(zip(cases, obs)):
            if o.get('timeout'):
                inconclusive += 1
                continue
            events.append(event_of(i, c, o))
        res = judge.judge(work, 'Trace_Spans', events, env={'VERIF_WHICH': which}, min_shard=3000)
        # binding self-test
        src = next((e for e in events if len(e['ents']) >= 2 and e['ents'][0]['e'] < e['ents'][1]['s']), None)
        if src is None:
            print('MACHINERY: no event with two entities for the self-test')
            return 2
        st = []
        if which == 'span':
            a = copy.deepcopy(src); a['ents'][0]['s'] += 1; a['ents'][0]['e'] += 1; st.append(a)
            b = copy.deepcopy(src); b['ents'][1]['e'] = len(b['ql']); st.append(b)
            c2 = copy.deepcopy(src); c2['ents'][0]['tl'] = c2['ents'][0]['tl'] + [120]; st.append(c2)
        else:
            a = copy.deepcopy(src); a['ents'][1]['s'] = a['ents'][0]['e']; st.append(a)
            b = copy.deepcopy(src); b['ents'].append(copy.deepcopy(b['ents'][0])); st.append(b)
        st.append(copy.deepcopy(src))
        for j, e in enumerate(st):
            e['id'] = j
        rs = judge.judge(work, 'Trace_Spans', st, env={'VERIF_WHICH': which}, shards=1)
        want = list(range(len(st) - 1))
        if sorted(b[0] for b in rs['bad'] if b[0] in want) != want or (len(st) - 1 in {b[0] for b in rs['bad']} and src['id'] not in {b[0] for b in res['bad']}):
            print('MACHINERY: binding self-test failed: %s' % (rs['bad'],))
            return 2
        for eid, clause in res['bad']:
            c = cases[eid]
            m = re.search(r'\[entity (\d+)\]', clause)
            ents = obs[eid].get('ents') or []
            etype = ents[int(m.group(1)) - 1]['type'] if m and int(m.group(1)) <= len(ents) else (ents[0]['type'] if ents and prop == 'C12' else '')
            if prop == 'C12':
                etype = '+'.join(sorted({e['type'] for e in ents}))
            key = {'api': c['api'], 'culture': c['culture'], 'text': c['text'], 'clause': clause.split(':')[0], 'etype': etype}
            if prop == 'C12':
                # the texts of the first two entities that share a character: identifies an overlap independently of
                # the surrounding noise
                es = sorted(ents, key=lambda e: (e['s'], e['e']))
                pair = next(((a, b) for i, a in enumerate(es) for b in es[i + 1:] if b['s'] <= a['e']), None)
                if pair:
                    key['pair'] = '%s|%s' % (pair[0]['text'], pair[1]['text'])
            V.violation(key, {'case': c, 'observed': obs[eid], 'clause': clause})
        if res['nbad'] > len(res['bad']):
            V.note('%d failing events in total; first %d reported' % (res['nbad'], len(res['bad'])))
        mech_info = []
        if prop == 'C12':
            from .. import mechbind
            mech_info = mechbind.merge_mech(work, V) + mechbind.select_candidates(work, V)
        if prop == 'C01':
            from .. import mechbind
            mech_info = mechbind.add_mod(work, V) + mechbind.mod_push_pop(work, V) + mechbind.preprocess(work, V, tier)
        rc = V.finish(max_print=40)
        from collections import Counter
        srcs = Counter(c['src'].split(':')[0] for c in cases)
        common.write_evidence(prop, tier, 'model_checking', {
            'states': gstates + res['states'] + sum(m.get('distinct_states', 0) for m in mech_info),
            'transitions': gtrans + res['transitions'] + sum(m.get('distinct_states', 0) for m in mech_info),
            'traces_validated_against_impl': res['n'],
            'samples': [{'case': c, 'observed': o} for c, o in flow.sample_evenly([(c, o) for c, o in zip(cases, obs) if o.get('ents')], 5)],
            'evaluations': len(cases),
            'distinct_nontrivial': sum(1 for o in obs if o.get('ents')),
            'rule': 'model calls recorded over: every Python-supported Specs Model input against its model; noise queries generated by Gen_Noise (exhaustive <=2 tokens, sampled, '
                    'plus simulated walks) against every registered (model, culture) pair; Specs inputs against the other models of their culture; pairs of Specs inputs joined by '
                    'filler; every call is one event judged by TLC (Trace_Spans, clause family "%s"); non-trivial = the call returned at least one entity (cases are distinct by construction)' % which,
            'exhaustive': False,
            'generators': gens,
            'mech_model_checks': mech_info,
            'case_sources': dict(srcs),
            'binding_selftest': 'passed',
            'inconclusive_timeouts': inconclusive,
            'failing_events': res['nbad'],
            'known_findings_hit': sorted(V.known_hits),
        }, time.time() - t0, len(V.new), common.STD_ASSUMPTIONS + [common.SHIM_ASSUMPTION,
            "per-code-point lower-casing is computed by the harness with Python's str.lower (kept only when length-preserving)"])
        return rc
    finally:
        wd.cleanup()


def replay(prop, path, which):
    rec = json.load(open(path, encoding='utf-8'))
    c = rec['detail']['case']
    wd = common.WorkDir(prop + 'r')
    try:
        work = tlc.stage(wd.sub('spec'), {})
        o = pool.run_cases([c], init_name='all', batch=1, timeout=30)[0]
        res = judge.judge(work, 'Trace_Spans', [event_of(0, c, o)], env={'VERIF_WHICH': which}, shards=1)
        print(json.dumps({'case': c, 'observed': o, 'verdict': res['bad']}, ensure_ascii=False, indent=1))
        if res['nbad']:
            print('VIOLATION property=%s replay=%s' % (prop, path))
            return 1
        return 0
    finally:
        wd.cleanup()
