"""C11 - Every resolved date-time value is well formed and agrees with its TIMEX."""
import json
import random
import time

from .. import common, tlc, pool, judge, flow
from . import res_common as r
from . import dt_common as d

PROP = 'C11'
GENS = [('Gen_DateAbs', 'Gen_DateAbs_%s.cfg'), ('Gen_ClockTime', 'Gen_ClockTime_%s.cfg'), ('Gen_RelDate', 'Gen_RelDate_%s.cfg'),
        ('Gen_OpenDate', 'Gen_OpenDate_%s.cfg'), ('Gen_DurRange', 'Gen_DurRange_%s.cfg')]


def run(tier):
    t0 = time.time()
    rnd = random.Random(common.seed())
    wd = common.WorkDir(PROP)
    V = common.Verdicts(PROP)
    try:
        work = tlc.stage(wd.sub('spec'), {})
        cases = r.corpus_cases(tier, rnd, 2 if tier == 'quick' else 8)
        gstates = gtrans = 0
        gens = []
        for mod, cfgt in GENS:
            g, st = flow.generate(work, mod, cfgt % 'quick')      # the quick generators of C06-C10 (their thorough tiers are run by those checks)
            st.sort(key=lambda s: json.dumps(s['c'], sort_keys=True, ensure_ascii=False))
            take = flow.sample_evenly(st, 1200 if tier == 'quick' else 6000)
            for s in take:
                c = s['c']
                cases.append({'api': 'datetime', 'text': d.unescape(c['text']), 'culture': c['culture'], 'ref': c['ref'], 'src': 'generated:' + mod})
            gstates += g['distinct']
            gtrans += g['generated']
            gens.append({'module': mod, 'cfg': cfgt % 'quick', 'distinct_states': g['distinct'], 'cases': len(take)})
        for gm in ('Gen_Mods', 'Gen_Ranges'):
            g, st = flow.generate(work, gm, gm + '.cfg')
            for s in st:
                cases.append({'api': 'datetime', 'text': d.unescape(s['c']['text']), 'culture': s['c']['culture'], 'ref': s['c']['ref'], 'src': 'generated:' + gm})
            gstates += g['distinct']
            gtrans += g['generated']
            gens.append({'module': gm, 'cfg': gm + '.cfg', 'distinct_states': g['distinct'], 'cases': len(st)})
        g, st = flow.generate(work, 'Gen_BadDates', 'Gen_BadDates.cfg')
        for s in st:
            cases.append({'api': 'datetime', 'text': s['c']['text'], 'culture': s['c']['culture'], 'ref': s['c']['ref'], 'src': 'generated:Gen_BadDates'})
        gstates += g['distinct']
        gtrans += g['generated']
        gens.append({'module': 'Gen_BadDates', 'cfg': 'Gen_BadDates.cfg', 'distinct_states': g['distinct'], 'cases': len(st)})
        obs = pool.run_cases(cases, init_name='datetime', batch=40, timeout=20.0, progress=PROP)
        events, res = r.judge_cases(work, cases, obs, 'resolution')
        ok = r.selftest(work, events, 'resolution')
        if ok is not True:
            print('MACHINERY: binding self-test %s' % ('found no suitable event' if ok is None else 'failed'))
            return 2
        for eid, clause in res['bad']:
            V.violation(r.key_of(cases[eid], clause, obs[eid]), {'case': cases[eid], 'observed': obs[eid], 'clause': clause})
        if res['nbad'] > len(res['bad']):
            V.note('%d failing events in total; first %d reported' % (res['nbad'], len(res['bad'])))
        rc = V.finish(max_print=400)
        nvals = sum(len(e['res'].get('values') or []) for o in obs for e in (o.get('ents') or []))
        common.write_evidence(PROP, tier, 'model_checking', {
            'states': gstates + res['states'], 'transitions': gtrans + res['transitions'],
            'traces_validated_against_impl': res['n'],
            'samples': [{'case': c, 'observed': o} for c, o in flow.sample_evenly([(c, o) for c, o in zip(cases, obs) if o.get('ents')], 5)],
            'evaluations': len(cases),
            'distinct_nontrivial': len({(c['text'], c['culture'], c['ref']) for c, o in zip(cases, obs) if o.get('ents')}),
            'rule': 'one event per recognize_datetime call over: every Python-supported Specs date-time input in every culture under its own reference and under seeded references '
                    '(month ends, leap days, year boundaries); the generated expressions of C06-C10; date-shaped near misses from Gen_BadDates; every entity and every resolution value '
                    'is judged by TLC with Resolution!EntityVerdict (Trace_Resolution); non-trivial = the call returned an entity',
            'exhaustive': False, 'generators': gens, 'resolution_values_judged': nvals, 'binding_selftest': 'passed',
            'inconclusive_timeouts': sum(1 for o in obs if o.get('timeout')), 'failing_events': res['nbad'],
            'known_findings_hit': sorted(V.known_hits),
        }, time.time() - t0, len(V.new), d.ASSUME)
        return rc
    finally:
        wd.cleanup()


def replay(path):
    rec = json.load(open(path, encoding='utf-8'))
    c = rec['detail']['case']
    wd = common.WorkDir(PROP + 'r')
    try:
        work = tlc.stage(wd.sub('spec'), {})
        o = pool.run_cases([c], init_name='datetime', batch=1, timeout=30)[0]
        ev, res = r.judge_cases(work, [c], [o], 'resolution')
        print(json.dumps({'case': c, 'observed': o, 'verdict': res['bad']}, ensure_ascii=False, indent=1))
        if res['nbad']:
            print('VIOLATION property=%s replay=%s' % (PROP, path))
            return 1
        return 0
    finally:
        wd.cleanup()
