"""C16 - Dictionary matching finds exactly the listed phrases at token boundaries."""
import copy
import json
import random
import time

from .. import common, tlc, pool, judge, flow

PROP = 'C16'

POOL = {
    'sp': [32, 9, 12288, 160],
    'L': [97, 90, 233, 1103, 223],
    'D': [48, 55, 65301, 1635],
    'S': [36],
    'C': [20013, 20803, 12354, 12459],
    'K': [54620, 4352],
    'P': [46, 44, 45, 8364, 33, 65284],
}


def check_pool():
    """The class table of Matcher.tla must describe Python's own character predicates."""
    for cls, cps in POOL.items():
        for cp in cps:
            c = chr(cp)
            if cls == 'sp':
                ok = c.isspace()
            elif cls == 'L':
                ok = c.isalpha() and not c.isdigit()
            elif cls == 'D':
                ok = c.isdigit() and not c.isalpha()
            elif cls in ('C', 'K'):
                ok = c.isalpha()
            else:
                ok = not c.isspace() and not c.isalpha() and not c.isdigit()
            if not ok:
                raise SystemExit('MACHINERY: pool code point %d is not of class %s' % (cp, cls))


def concretise(cls, rnd):
    return [rnd.choice(POOL[c]) for c in cls]


def tok_cases(states, rnd, reps):
    out = []
    for st in states:
        for _ in range(reps):
            cps = concretise(st['cls'], rnd)
            out.append({'api': 'tokenize', 'tokenizer': st['tk'], 'cps': cps, 'cls': st['cls']})
    return out


WORDS = {'a': 'foo', 'b': '12', 'c': '中', 'd': 'bar'}


def trie_cases(states, rnd):
    out = []
    for n, st in enumerate(states):
        # white space inside a phrase is not significant: every fourth dictionary is written with wide gaps (its phrases are
        # then longer in characters than a query that contains them)
        wide = n % 4 == 3
        phrases = [('   ' if wide else ' ').join(WORDS[t] for t in e['toks']) for e in st['dict']]
        ids = [e['id'] for e in st['dict']]
        q = ('  ' if rnd.random() < 0.3 and not wide else ' ').join(WORDS[t] for t in st['query'])
        form = rnd.choice(['ids', 'dict', 'ids'])
        out.append({'api': 'match', 'tokenizer': rnd.choice(['simple', 'nwu']), 'form': form,
                    'phrases': [[ord(c) for c in p] for p in phrases], 'ids': ids, 'query': [ord(c) for c in q]})
    return out


def random_match_cases(n, rnd):
    out = []
    classes = ['L', 'L', 'L', 'D', 'D', 'S', 'C', 'K', 'P']
    for _ in range(n):
        nphr = rnd.choice([1, 2, 3, 5, 8, 15, 30])
        words = []
        for _ in range(rnd.randint(2, 6)):
            words.append([rnd.choice(POOL[rnd.choice(classes)]) for _ in range(rnd.randint(1, 3))])
        phrases = []
        for _ in range(nphr):
            k = rnd.randint(1, 3)
            p = []
            for w in range(k):
                if w:
                    p += [rnd.choice(POOL['sp'])] if rnd.random() < 0.7 else []
                p += rnd.choice(words)
            phrases.append(p)
        form = rnd.choice(['list', 'ids', 'dict'])
        idpool = ['x', 'y', 'z', 'w']
        ids = [rnd.choice(idpool) for _ in phrases]
        q = []
        while len(q) < rnd.randint(3, 40):
            r = rnd.random()
            if r < 0.45:
                q += rnd.choice(phrases)
            elif r < 0.7:
                q += rnd.choice(words)
            else:
                q += [rnd.choice(POOL[rnd.choice(list(POOL))])]
            if rnd.random() < 0.6:
                q += [rnd.choice(POOL['sp'])] * rnd.choice([1, 1, 2])
        out.append({'api': 'match', 'tokenizer': rnd.choice(['simple', 'nwu']), 'form': form,
                    'phrases': phrases, 'ids': ids, 'query': q[:40]})
    return out


def build_events(cases, obs):
    events, inconclusive = [], 0
    for idx, (c, o) in enumerate(zip(cases, obs)):
        if o.get('timeout'):
            inconclusive += 1
            continue
        if c['api'] == 'tokenize':
            events.append({'id': idx, 'k': 'tok', 'tokenizer': c['tokenizer'], 'cps': c['cps'], 'obs': o})
        else:
            events.append({'id': idx, 'k': 'match', 'tokenizer': c['tokenizer'], 'cps': c['query'], 'obs': o})
    return events, inconclusive


def selftest(work, events):
    tok = next((e for e in events if e['k'] == 'tok' and len(e['obs'].get('tokens', [])) >= 2), None)
    mat = next((e for e in events if e['k'] == 'match' and len(e['obs'].get('matches', [])) >= 2), None)
    if not tok or not mat:
        return False
    bad = []
    e = copy.deepcopy(tok); e['obs']['tokens'][1]['start'] += 1; bad.append(e)
    e = copy.deepcopy(tok); e['obs']['tokens'] = e['obs']['tokens'][1:]; bad.append(e)
    e = copy.deepcopy(mat); e['obs']['matches'] = e['obs']['matches'][1:]; bad.append(e)
    e = copy.deepcopy(mat); e['obs']['matches'][0]['ids'] = ['nope']; bad.append(e)
    e = copy.deepcopy(mat); e['obs']['matches'].append(copy.deepcopy(e['obs']['matches'][0])); bad.append(e)
    e = copy.deepcopy(mat); e['obs']['matches'][0]['length'] += 1; bad.append(e)
    allv = bad + [copy.deepcopy(tok), copy.deepcopy(mat)]
    for k, e in enumerate(allv):
        e['id'] = k
    r = judge.judge(work, 'Trace_Matcher', allv, shards=1)
    return r['nbad'] == 6 and sorted(b[0] for b in r['bad']) == [0, 1, 2, 3, 4, 5]


def run(tier):
    t0 = time.time()
    check_pool()
    rnd = random.Random(common.seed())
    wd = common.WorkDir(PROP)
    V = common.Verdicts(PROP)
    try:
        work = tlc.stage(wd.sub('spec'), {})
        mc_tok, st_tok = flow.generate(work, 'Tokenizer', 'MC_Tokenizer_%s.cfg' % tier)
        mc_trie, st_trie = flow.generate(work, 'Trie', 'MC_Trie_%s.cfg' % tier)
        for name, mc in (('Tokenizer', mc_tok), ('Trie', mc_trie)):
            if mc['violation']:
                V.note('mechanism-drift: %s transcription violates %s at design level' % (name, mc['violation']))
        st_tok.sort(key=lambda s: (s['tk'], s['cls']))
        st_trie.sort(key=lambda s: json.dumps([s['dict'], s['query']]))
        if tier == 'quick' and len(st_trie) > 6000:
            st_trie = flow.sample_evenly(st_trie, 6000)
        if len(st_trie) > 60000:
            st_trie = flow.sample_evenly(st_trie, 60000)
        cases = tok_cases(st_tok, rnd, 2) + trie_cases(st_trie, rnd) + random_match_cases(3000 if tier == 'quick' else 40000, rnd)
        obs = pool.run_cases(cases, init_name='text', timeout=10.0, batch=300, progress=PROP)
        events, inconclusive = build_events(cases, obs)
        res = judge.judge(work, 'Trace_Matcher', events, min_shard=2500)
        if not selftest(work, events):
            print('MACHINERY: binding self-test failed (corrupted observations were accepted)')
            return 2
        for eid, clause in res['bad']:
            c = cases[eid]
            if c['api'] == 'tokenize':
                key = {'api': 'tokenize', 'tokenizer': c['tokenizer'], 'cps': c['cps'], 'clause': clause.split(':')[0]}
            else:
                key = {'api': 'match', 'tokenizer': c['tokenizer'], 'form': c['form'], 'phrases': c['phrases'], 'ids': c['ids'],
                       'query': c['query'], 'clause': clause.split(':')[0]}
            V.violation(key, {'case': c, 'observed': obs[eid], 'clause': clause,
                              'text': ''.join(chr(x) for x in (c.get('cps') or c.get('query')))})
        if res['nbad'] > len(res['bad']):
            V.note('%d failing events in total; first %d reported' % (res['nbad'], len(res['bad'])))
        for eid in res['drift'][:5]:
            V.note('mechanism-drift: tokenizer %s groups %r differently from Matcher!ContractTokens' % (cases[eid]['tokenizer'], ''.join(chr(x) for x in cases[eid]['cps'])))
        rc = V.finish()
        nmatch = sum(1 for c, o in zip(cases, obs) if c['api'] == 'match' and o.get('matches'))
        common.write_evidence(PROP, tier, 'model_checking', {
            'states': mc_tok['distinct'] + mc_trie['distinct'] + res['states'],
            'transitions': mc_tok['generated'] + mc_trie['generated'] + res['transitions'],
            'traces_validated_against_impl': res['n'],
            'samples': [{'case': {k: v for k, v in c.items()}, 'observed': o} for c, o in flow.sample_evenly(list(zip(cases, obs)), 5)],
            'evaluations': len(cases),
            'distinct_nontrivial': len({json.dumps(c, sort_keys=True) for c, o in zip(cases, obs) if o.get('tokens') or o.get('matches')}),
            'rule': 'tokenizer cases: every class string up to the MaxLen of MC_Tokenizer_%s.cfg x both tokenizers x 2 seeded concretisations from the closed pool; '
                    'matcher cases: every (dictionary, query) of MC_Trie_%s.cfg concretised to words, plus seeded random dictionaries (<=30 phrases) and queries (<=40 chars) over the pool; '
                    'non-trivial = at least one token / one match returned; verdict by TLC (Trace_Matcher)' % (tier, tier),
            'exhaustive': False,
            'mech_model_checks': [{'module': 'Tokenizer', 'distinct_states': mc_tok['distinct'], 'violation': mc_tok['violation']},
                                  {'module': 'Trie', 'distinct_states': mc_trie['distinct'], 'violation': mc_trie['violation']}],
            'match_cases_with_matches': nmatch,
            'mechanism_drift_events': len(res['drift']),
            'binding_selftest': 'passed',
            'inconclusive_timeouts': inconclusive,
            'known_findings_hit': sorted(V.known_hits),
        }, time.time() - t0, len(V.new), common.STD_ASSUMPTIONS + ['the class table of Matcher.tla matches str.isspace/isalpha/isdigit for the pool (checked at start of every run)'])
        return rc
    finally:
        wd.cleanup()


def replay(path):
    rec = json.load(open(path, encoding='utf-8'))
    c = rec['detail']['case']
    wd = common.WorkDir(PROP + 'r')
    try:
        work = tlc.stage(wd.sub('spec'), {})
        obs = pool.run_cases([c], init_name='text', batch=1)
        events, _ = build_events([c], obs)
        res = judge.judge(work, 'Trace_Matcher', events, shards=1)
        print(json.dumps({'case': c, 'observed': obs[0], 'verdict': res['bad']}, ensure_ascii=False, indent=1))
        if res['nbad']:
            print('VIOLATION property=%s replay=%s' % (PROP, path))
            return 1
        return 0
    finally:
        wd.cleanup()
