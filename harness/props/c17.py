"""C17 - Culture routing and model caching never serve the wrong model."""
import copy
import json
import os
import random
import re
import time

from .. import common, tlc, pool, judge, flow

PROP = 'C17'
NUM_CULTURES = ["en-us", "es-es", "es-mx", "fr-fr", "pt-br", "de-de", "it-it", "nl-nl", "zh-cn", "ja-jp"]
TWO = {"en-us": "two", "es-es": "dos", "es-mx": "dos", "fr-fr": "deux", "pt-br": "dois", "de-de": "zwei", "it-it": "due",
       "nl-nl": "twee", "zh-cn": "二", "ja-jp": "二"}


def opt_value(valid, choice):
    hi = max(valid)
    if choice == 'none':
        return 0
    if choice == 'other':
        return 2 if hi >= 2 else 0
    if choice == 'high':
        return hi + 1
    return -1


def requests_from(states, reg, tier, rnd):
    types = sorted({p[0] for p in reg['pairs']})
    reqs = []
    for st in states:
        c = st['c']
        for ty in types:
            valid = reg['valid'][ty]
            if c['optc'] == 'other' and max(valid) < 2:
                continue
            if c['code'] == '<none>' and (c['optc'] != 'none' or (tier == 'quick' and ty not in ('NumberModel', 'BooleanModel', 'IpAddressModel', 'AgeModel', 'DateTimeModel'))):
                continue   # target culture None initialises every model of the family: kept to a few requests
            if tier == 'quick' and c['optc'] in ('high', 'neg') and rnd.random() > 0.15:
                continue
            if tier == 'quick' and ty not in ('NumberModel', 'DateTimeModel', 'CurrencyModel', 'IpAddressModel', 'BooleanModel', 'PhoneNumberModel') and rnd.random() > 0.25:
                continue
            reqs.append({'type': ty, 'code': c['code'], 'opt': opt_value(valid, c['optc']), 'fb': c['fb']})
    return reqs


def schedules_from(behaviours, limit):
    """Project behaviours of ModelCache.tla onto the yield points of the real code (constructor
    entry / exit, end of call): the order in which threads are released."""
    out = []
    for beh in behaviours:
        nthreads = len(beh[0][1]['pc'])
        reqs = [[] for _ in range(nthreads)]
        order = []
        ok = True
        prev = beh[0][1]
        for act, st in beh[1:]:
            moved = [k for k in range(nthreads) if st['pc'][k] != prev['pc'][k] or st['calls'][k] != prev['calls'][k]]
            if len(moved) != 1:
                prev = st
                continue
            k = moved[0]
            p0, p1 = prev['pc'][k], st['pc'][k]
            if act == 'Begin':
                r = st['req'][k]
                if r['code'] == '<none>':
                    ok = False
                    break
                reqs[k].append({'type': r['type'], 'code': r['code'], 'opt': r['opt'], 'fb': r['fb']})
                if p1 == 'raised':
                    order.append(k)
            elif act in ('Lookup', 'FallbackLookup') and p1 in ('build', 'fb_build', 'return', 'raised'):
                order.append(k)
            elif act in ('Build', 'Insert'):
                order.append(k)
            prev = st
        if ok and any(reqs):
            out.append({'api': 'schedule', 'nthreads': nthreads, 'reqs': reqs, 'order': order})
        if len(out) >= limit:
            break
    return out


MC_TYPE = {'Number': 'NumberModel', 'DateTime': 'DateTimeModel'}


def find_request(events, seq):
    """The request a thread was serving at event `seq`."""
    cur = {}
    for e in events:
        if e['op'] == 'call':
            cur[e['t']] = e['req']
        if e['seq'] == seq:
            return cur.get(e['t'])
    return None


def run(tier):
    t0 = time.time()
    rnd = random.Random(common.seed())
    wd = common.WorkDir(PROP)
    V = common.Verdicts(PROP)
    try:
        work = tlc.stage(wd.sub('spec'), {})
        # 1. design level: every interleaving of the cache protocol within small constants
        mcs = []
        for cfg in (['MC_ModelCache_quick.cfg'] if tier == 'quick' else ['MC_ModelCache.cfg', 'MC_ModelCache_init.cfg']):
            r = tlc.run(work, 'MC_ModelCache', cfg=cfg, timeout=3000)
            if not r['ok']:
                if r['violation']:
                    V.note('mechanism-drift: ModelCache.tla violates %s under %s (design-level counterexample)' % (r['violation'], cfg))
                else:
                    tlc.require_ok(r, 'MC_ModelCache/' + cfg)
            mcs.append({'cfg': cfg, 'distinct_states': r['distinct'], 'generated': r['generated'], 'violation': r['violation']})
        # 2. running configuration
        reg = pool.run_cases([{'api': 'registered'}], init_name='all', batch=1, timeout=120)[0]
        regfile = os.path.join(work, 'reg.json')
        # 3. requests from the TLA+ generator, grouped into cold histories
        gen, states = flow.generate(work, 'Gen_Routing', 'Gen_Routing.cfg')
        states.sort(key=lambda s: json.dumps(s['c'], sort_keys=True))
        reqs = requests_from(states, reg, tier, rnd)
        # histories mix the requests of two model types (bounded number of model constructions per cold start)
        types = sorted({r['type'] for r in reqs})
        rnd.shuffle(types)
        hist_len = 60
        cases = []
        for a in range(0, len(types), 2):
            grp = [r for r in reqs if r['type'] in types[a:a + 2]]
            rnd.shuffle(grp)
            for i in range(0, len(grp), hist_len):
                cases.append({'api': 'history', 'cold': True, 'reqs': grp[i:i + hist_len]})
            # the same requests served by long-lived recogniser objects (one per family and options) instead of a fresh
            # recogniser per request: requests that differ only in letter case or in the fallback flag are adjacent
            # (fallback first, and reversed)
            sgrp = sorted(grp, key=lambda r: (r['type'], r['code'].lower(), r['opt'], not r['fb'], r['code']))
            for n, i in enumerate(range(0, len(sgrp), hist_len)):
                if tier == 'thorough' or n % 2 == 0:
                    cases.append({'api': 'history', 'cold': True, 'shared': True, 'reqs': sgrp[i:i + hist_len]})
                    cases.append({'api': 'history', 'cold': True, 'shared': True, 'reqs': sgrp[i:i + hist_len][::-1]})
        # seeded random histories with repeats (warm hits) over a small alphabet
        alpha = [r for r in reqs if r['type'] in ('NumberModel', 'DateTimeModel', 'CurrencyModel')][:400]
        for _ in range(10 if tier == 'quick' else 60):
            pick = [rnd.choice(alpha) for _ in range(12)]
            cases.append({'api': 'history', 'cold': True, 'shared': bool(_ % 2), 'reqs': [rnd.choice(pick) for _ in range(100)]})
        # free-running threads sharing the cache
        for _ in range(8 if tier == 'quick' else 80):
            pick = [rnd.choice(alpha) for _ in range(6)]
            cases.append({'api': 'threads', 'threads': [[rnd.choice(pick) for _ in range(6)] for _ in range(8)]})
        # 4. spec -> code: interleavings generated by TLC from ModelCache.tla
        sim_r, _ = flow.simulate(work, 'MC_ModelCache', 'MC_ModelCache.cfg', 80 if tier == 'quick' else 1500, 40, common.seed())
        behs = tlc.read_sim_traces(os.path.join(work, 'sim_MC_ModelCache'))
        scheds = schedules_from(behs, 80 if tier == 'quick' else 1500)
        for s in scheds:
            for lst in s['reqs']:
                for r in lst:
                    r['type'] = MC_TYPE.get(r['type'], r['type'])
        cases += scheds
        n_hist = len(cases)
        # 5. behaviour fingerprints of the number models
        fcases = [{'api': 'fingerprint', 'type': 'NumberModel', 'culture': c, 'probes': [[k, TWO[k]] for k in NUM_CULTURES]} for c in NUM_CULTURES]
        import sys
        sys.stderr.write('  [C17] mc+gen+sim %.0fs; %d histories/rounds/schedules\n' % (time.time() - t0, len(cases)))
        obs = pool.run_cases(cases + fcases, init_name='all', timeout=300.0, batch=2, progress=PROP)
        sys.stderr.write('  [C17] replay done at %.0fs\n' % (time.time() - t0))
        fam_of = {}
        regdata = {'pairs': reg['pairs'], 'valid': reg['valid'], 'family': reg['family']}
        json.dump(regdata, open(regfile, 'w'))
        traces, inconclusive = [], 0
        for i, (c, o) in enumerate(zip(cases, obs[:n_hist])):
            if o.get('timeout') or 'events' not in o:
                if o.get('exception'):
                    V.violation({'api': c['api'], 'clause': 'HarnessException', 'exception': o['exception']}, {'case': c, 'observed': o})
                inconclusive += 1
                continue
            traces.append({'id': i, 'events': o['events']})
        res = judge.judge(work, 'Trace_Cache', traces, env={'VERIF_REG': regfile}, min_shard=20)
        fevents = [{'id': i, 'c': {'type': c['type'], 'culture': c['culture']}, 'obs': o} for i, (c, o) in enumerate(zip(fcases, obs[n_hist:])) if not o.get('timeout')]
        fres = judge.judge(work, 'Trace_Fingerprint', fevents, shards=1)
        # binding self-test: corrupt one logged key / one returned id / drop one insert
        good = next((t for t in traces if sum(1 for e in t['events'] if e['op'] == 'set') >= 2 and t['events'][0]['op'] == 'call' and any(e['op'] == 'ret' for e in t['events'][:8])), None)
        if good is None:
            print('MACHINERY: no trace with two inserts for the self-test')
            return 2
        st = []
        a = copy.deepcopy(good); e = next(x for x in a['events'] if x['op'] == 'get'); e['key'][1] = 'xx-xx'; st.append(a)
        b = copy.deepcopy(good); e = next(x for x in b['events'] if x['op'] == 'ret'); e['tag']['culture'] = 'tr-tr'; st.append(b)
        c2 = copy.deepcopy(good); k = next(j for j, x in enumerate(c2['events']) if x['op'] == 'set'); del c2['events'][k]; st.append(c2)
        d = copy.deepcopy(good); e = next(x for x in d['events'] if x['op'] == 'ret'); e['tag']['opt'] = e['tag']['opt'] + 1; st.append(d)
        st.append(copy.deepcopy(good))
        for j, t in enumerate(st):
            t['id'] = j
        rs = judge.judge(work, 'Trace_Cache', st, env={'VERIF_REG': regfile}, shards=1)
        badids = {b[0] for b in rs['bad']}
        driftids = {d[0] for d in rs['drift']}
        base_bad = 4 in badids
        if not ({1, 3} <= badids and {0, 2} <= driftids) or (4 in badids and good['id'] not in {b[0] for b in res['bad']}):
            print('MACHINERY: binding self-test failed: bad=%s drift=%s' % (rs['bad'][:6], rs['drift'][:6]))
            return 2
        fbad = copy.deepcopy(fevents[:1]); fbad[0]['obs']['hits'] = ['en-us'] if fbad[0]['c']['culture'] != 'en-us' else []
        if judge.judge(work, 'Trace_Fingerprint', fbad, shards=1)['nbad'] != 1:
            print('MACHINERY: fingerprint self-test failed')
            return 2
        bytrace = {t['id']: t for t in traces}
        for tid, clause in res['bad']:
            m = re.search(r'\(event (\d+)\)', clause)
            rq = find_request(bytrace[tid]['events'], int(m.group(1))) if m else None
            key = {'clause': clause.split(':')[0], 'request': rq}
            V.violation(key, {'case': cases[tid], 'clause': clause, 'request': rq})
        for fid, clause in fres['bad']:
            V.violation({'clause': 'Fingerprint', 'type': fcases[fid]['type'], 'culture': fcases[fid]['culture']},
                        {'case': fcases[fid], 'observed': obs[n_hist + fid], 'clause': clause})
        if res['nbad'] > len(res['bad']):
            V.note('%d failing events in total; first %d reported' % (res['nbad'], len(res['bad'])))
        for d in res['drift'][:8]:
            V.note('mechanism-drift: ModelCache.tla cannot take the logged step: %s' % (d[1],))
        rc = V.finish()
        nreq = sum(len(c['reqs']) if c['api'] == 'history' else sum(len(x) for x in (c.get('threads') or c.get('reqs'))) for c in cases)
        distinct = {json.dumps(r, sort_keys=True) for r in reqs}
        common.write_evidence(PROP, tier, 'model_checking', {
            'states': sum(m['distinct_states'] for m in mcs) + gen['distinct'] + res['states'],
            'transitions': sum(m['generated'] for m in mcs) + gen['generated'] + res['transitions'],
            'traces_validated_against_impl': res['n'] + fres['n'],
            'samples': [{'request': reqs[0]}, {'history_events': traces[0]['events'][:12]},
                        {'schedule': {k: v for k, v in (scheds[0] if scheds else {}).items()}}],
            'evaluations': nreq,
            'distinct_nontrivial': len(distinct),
            'rule': 'requests = (culture string x option choice x fallback) states of Gen_Routing x every registered model type, issued in cold histories of %d; '
                    'seeded random histories with repeats; 8 free-running threads sharing the cache; interleavings simulated by TLC from ModelCache.tla and replayed with '
                    'gated constructors; every cache event log replayed through ModelCache actions by TLC (Trace_Cache), each return judged by Routing!Verdict; '
                    'number-model behaviour fingerprints; distinct = distinct request tuples' % hist_len,
            'exhaustive': tier == 'thorough',
            'mech_model_checks': mcs,
            'histories': sum(1 for c in cases if c['api'] == 'history'), 'thread_rounds': sum(1 for c in cases if c['api'] == 'threads'),
            'schedules_replayed': len(scheds), 'cache_events_validated': sum(len(t['events']) for t in traces),
            'binding_selftest': 'passed (2 corrupted logs rejected as violations, 2 as mechanism drift, 1 corrupted fingerprint rejected)',
            'mechanism_drift_events': len(res['drift']),
            'inconclusive_timeouts': inconclusive,
            'known_findings_hit': sorted(V.known_hits),
        }, time.time() - t0, len(V.new), common.STD_ASSUMPTIONS + [common.SHIM_ASSUMPTION,
            'the harness-side wrapper of ModelFactory.register_model and the logging dict installed as ModelFactory.__cache do not change behaviour'])
        return rc
    finally:
        wd.cleanup()


def replay(path):
    rec = json.load(open(path, encoding='utf-8'))
    c = rec['detail']['case']
    wd = common.WorkDir(PROP + 'r')
    try:
        work = tlc.stage(wd.sub('spec'), {})
        reg = pool.run_cases([{'api': 'registered'}], init_name='all', batch=1, timeout=120)[0]
        regfile = os.path.join(work, 'reg.json')
        json.dump({'pairs': reg['pairs'], 'valid': reg['valid'], 'family': reg['family']}, open(regfile, 'w'))
        o = pool.run_cases([c], init_name='all', batch=1, timeout=300)[0]
        if c['api'] == 'fingerprint':
            res = judge.judge(work, 'Trace_Fingerprint', [{'id': 0, 'c': {'type': c['type'], 'culture': c['culture']}, 'obs': o}], shards=1)
        else:
            res = judge.judge(work, 'Trace_Cache', [{'id': 0, 'events': o['events']}], env={'VERIF_REG': regfile}, shards=1)
        print(json.dumps({'verdict': res['bad']}, ensure_ascii=False, indent=1))
        if res['nbad']:
            print('VIOLATION property=%s replay=%s' % (PROP, path))
            return 1
        return 0
    finally:
        wd.cleanup()
