"""C12 - Entities returned by one call never overlap."""
from . import spans_common


def run(tier):
    return spans_common.run('C12', tier, 'overlap')


def replay(path):
    return spans_common.replay('C12', path, 'overlap')
