"""C02 - Recognition is a pure function of (query, culture, options, reference date)."""
import copy
import json
import random
import time

from .. import common, tlc, pool, judge, flow

PROP = 'C02'
REF = '2019-03-10T12:00:00'

# (api, culture, text, ref): inputs chosen to hit Decimal arithmetic, fractions, percent, CJK, date-time
# with reference, currency compounds, sequences, choice
POOL = [
    ('number', 'en-us', 'one third', None), ('number', 'en-us', 'twenty one', None), ('number', 'en-us', '3.5', None), ('number', 'en-us', '1/0', None),
    ('number', 'en-us', 'two and a half', None), ('number', 'en-us', '1e10', None), ('number', 'en-us', 'five sixths', None), ('number', 'en-us', '-12,345.678', None),
    ('number', 'fr-fr', 'un tiers', None), ('number', 'fr-fr', 'vingt et un', None), ('number', 'es-es', 'un tercio', None), ('number', 'es-es', 'dos mil', None),
    ('number', 'zh-cn', '三分之一', None), ('number', 'zh-cn', '一百二十三', None), ('number', 'ja-jp', '三分の一', None), ('number', 'de-de', 'ein drittel', None),
    ('number', 'de-de', '1.234,56', None), ('number', 'pt-br', 'dois terços', None), ('number', 'it-it', 'un terzo', None), ('number', 'nl-nl', 'een derde', None),
    ('ordinal', 'en-us', 'twenty first', None), ('ordinal', 'fr-fr', 'troisième', None), ('percentage', 'en-us', '33.3 percent', None), ('percentage', 'en-us', 'one third percent', None),
    ('percentage', 'zh-cn', '百分之五十', None), ('percentage', 'es-es', '20 por ciento', None),
    ('currency', 'en-us', '2 dollars and 50 cents', None), ('currency', 'en-us', '$ 3.5 million', None), ('currency', 'zh-cn', '五十美元', None), ('currency', 'es-es', '10 euros', None),
    ('dimension', 'en-us', '6 miles', None), ('dimension', 'fr-fr', '3 kilomètres', None), ('temperature', 'en-us', '32 degrees fahrenheit', None), ('age', 'en-us', '21 years old', None),
    ('age', 'zh-cn', '十八岁', None), ('dimension', 'en-us', 'one third of a mile', None),
    ('datetime', 'en-us', 'tomorrow at 3pm', REF), ('datetime', 'en-us', 'next month', '2019-01-31T08:00:00'), ('datetime', 'en-us', 'march 5', REF),
    ('datetime', 'en-us', "I'll be back thursday the 21st", '2019-04-10T00:00:00'), ('datetime', 'en-us', "I'll be back thursday the 21st", '2019-02-10T00:00:00'),
    ('datetime', 'en-us', 'from 2016-11-07 to 2016-11-09', REF), ('datetime', 'en-us', 'two and a half hours', REF), ('datetime', 'en-us', 'now', REF), ('datetime', 'en-us', 'now', '2020-02-29T23:59:59'),
    ('datetime', 'fr-fr', 'demain à 15h', REF), ('datetime', 'es-es', 'mañana a las 3', REF), ('datetime', 'zh-cn', '明天下午三点', REF), ('datetime', 'de-de', 'morgen um 15 uhr', REF),
    ('datetime', 'pt-br', 'amanhã às 15h', REF), ('datetime', 'en-us', 'monday', '2019-03-11T10:00:00'), ('datetime', 'en-us', 'last week', '2020-01-01T00:00:00'),
    ('ip', 'en-us', '192.168.0.1 and ::1', None), ('phone', 'en-us', 'call 425-555-0100', None), ('email', 'en-us', 'mail a@b.com now', None), ('url', 'en-us', 'see www.bing.com', None),
    ('guid', 'en-us', '{123e4567-e89b-12d3-a456-426614174000}', None), ('hashtag', 'en-us', '#verif', None), ('mention', 'en-us', '@someone', None),
    ('boolean', 'en-us', 'yes please', None), ('boolean', 'en-us', 'not ok', None),
    # requests whose values are numerically equal but written differently (a memo keyed on the value would confuse them)
    ('number', 'en-us', '0', None), ('number', 'en-us', '0.0', None), ('number', 'en-us', '-0', None), ('number', 'en-us', '0.0000001', None), ('number', 'en-us', '1e-7', None),
    ('number', 'en-us', '1', None), ('number', 'en-us', '1.0', None), ('number', 'en-us', 'one hundred', None), ('number', 'en-us', '100.00', None),
    ('temperature', 'en-us', '0 degrees celsius', None), ('temperature', 'en-us', '-0 degrees celsius', None), ('number', 'de-de', '0,0', None), ('number', 'de-de', '0', None),
    # the same requests in another letter case (a memo keyed on the lower-cased query would confuse them)
    ('boolean', 'en-us', 'YES PLEASE', None), ('boolean', 'en-us', 'Not OK', None), ('number', 'en-us', 'Twenty One', None), ('datetime', 'en-us', 'Tomorrow At 3PM', REF),
    ('currency', 'en-us', '2 Dollars And 50 Cents', None), ('email', 'en-us', 'Mail A@B.com Now', None), ('datetime', 'fr-fr', 'Demain À 15H', REF),
]
EQUAL_VALUES = {'YES PLEASE', 'yes please', 'Not OK', 'not ok', 'Twenty One', 'twenty one', 'Tomorrow At 3PM', 'tomorrow at 3pm', '0', '0.0', '-0', '0.0000001', '1e-7', '1', '1.0', 'one hundred', '100.00', '0 degrees celsius', '-0 degrees celsius', '0,0'}


def calls():
    out = []
    for k, (api, cul, text, ref) in enumerate(POOL):
        out.append({'rid': 'r%02d|%s|%s|%s|%s' % (k, api, cul, text, ref or '-'), 'api': api, 'culture': cul, 'text': text, 'ref': ref})
    return out


def scenarios(tier, rnd):
    cs = calls()
    if tier == 'quick':
        cs_pairs = cs[::3]
    else:
        cs_pairs = cs
    sc = []
    # (i) alone in a fresh process (cold cache, main thread): packed 1 per scenario for a seeded third of the pool, plus all of it in pool order
    alone = cs if tier == 'thorough' else [c for k, c in enumerate(cs) if k % 7 == 0 or c['text'] in EQUAL_VALUES]
    for c in alone:
        sc.append({'name': 'alone', 'kind': 'seq', 'calls': [c]})
    sc.append({'name': 'pool-order', 'kind': 'seq', 'calls': cs})
    sc.append({'name': 'reverse-order', 'kind': 'seq', 'calls': list(reversed(cs))})
    # (ii) every ordered pair (a then b) inside one process per a
    for a in cs_pairs:
        seq = []
        for b in cs_pairs:
            seq += [a, b]
        sc.append({'name': 'pairs', 'kind': 'seq', 'calls': seq})
    # (iii) seeded random orders of length 200
    for _ in range(4 if tier == 'quick' else 50):
        sc.append({'name': 'random-history', 'kind': 'seq', 'calls': [rnd.choice(cs) for _ in range(200)]})
    # (iv) each request on the main thread and on a fresh worker thread, both orders
    sc.append({'name': 'placement', 'kind': 'placement', 'calls': cs, 'worker_first': False})
    sc.append({'name': 'placement-worker-first', 'kind': 'placement', 'calls': cs, 'worker_first': True})
    # (v) 8 free-running threads sharing the cached models
    for _ in range(3 if tier == 'quick' else 20):
        sc.append({'name': 'free-threads', 'kind': 'threads', 'threads': [[rnd.choice(cs) for _ in range(25)] for _ in range(8)]})
    return sc


def run(tier):
    t0 = time.time()
    rnd = random.Random(common.seed())
    wd = common.WorkDir(PROP)
    V = common.Verdicts(PROP)
    try:
        work = tlc.stage(wd.sub('spec'), {})
        mc1 = tlc.run(work, 'Purity', cfg='MC_Purity.cfg', timeout=600)
        mc2 = tlc.run(work, 'Purity', cfg='MC_Purity_threadctx.cfg', timeout=600)
        if not mc1['ok'] or mc2['violation'] != 'ParsePure':
            print('MACHINERY: Purity.tla model checks did not behave as specified (%s, %s)' % (mc1['violation'], mc2['violation']))
            return 2
        scs = scenarios(tier, rnd)
        cases = [{'api': 'purity_scenario', 'scenario': {k: v for k, v in s.items() if k != 'name'}, 'name': s['name'], 'timeout': 900} for s in scs]
        obs = pool.run_cases(cases, init_name='text', timeout=1000.0, batch=1, progress=PROP)
        events = []
        where = []
        for ci, (c, o) in enumerate(zip(cases, obs)):
            if 'observations' not in o:
                V.violation({'clause': 'ScenarioFailed', 'scenario': c['name']}, {'case': c['name'], 'observed': o})
                continue
            for ob in o['observations']:
                events.append({'id': len(events), 'rid': ob['rid'], 'digest': ob['digest'], 'scen': c['name']})
                where.append((ci, ob))
        # the baseline (ideal) of every request is its observation alone / first in pool order on the main thread of a cold process:
        # scenarios are ordered so that these come first in the trace
        res = judge.judge(work, 'Trace_Purity', events, shards=1, timeout=3000)
        # binding self-test
        st = copy.deepcopy(events[:50])
        twice = next((e for e in st[1:] if any(x['rid'] == e['rid'] for x in st[:e['id']])), None)
        if twice is None:
            st = copy.deepcopy(events[:2]) + [copy.deepcopy(events[0])]
            st[2]['id'] = 2
            twice = st[2]
        twice['digest'] = 'corrupted'
        rs = judge.judge(work, 'Trace_Purity', st, shards=1)
        if [b[0] for b in rs['bad']] != [twice['id']]:
            print('MACHINERY: binding self-test failed: %s' % (rs['bad'],))
            return 2
        first = {}
        for e, (ci, ob) in zip(events, where):
            first.setdefault(e['rid'], (cases[ci]['name'], ob))
        for eid, clause in res['bad']:
            ci, ob = where[eid]
            rid = ob['rid']
            key = {'rid': rid, 'scenario': cases[ci]['name'], 'thread': 'main' if ob['thread'] == 'main' else 'other', 'clause': clause.split(':')[0]}
            V.violation(key, {'request': rid, 'scenario': cases[ci]['name'], 'thread': ob['thread'], 'position': ob['pos'], 'observed': ob['value'],
                              'first_observation': {'scenario': first[rid][0], 'value': first[rid][1]['value'], 'thread': first[rid][1]['thread']}, 'clause': clause})
        if res['nbad'] > len(res['bad']):
            V.note('%d failing events in total; first %d reported' % (res['nbad'], len(res['bad'])))
        rc = V.finish(max_print=40)
        from collections import Counter
        common.write_evidence(PROP, tier, 'model_checking', {
            'states': mc1['distinct'] + mc2['distinct'] + res['states'],
            'transitions': mc1['generated'] + mc2['generated'] + res['transitions'],
            'traces_validated_against_impl': len(cases),
            'samples': [{'scenario': cases[where[k][0]]['name'], 'observation': where[k][1]} for k in (0, len(events) // 3, len(events) // 2, len(events) - 1)],
            'evaluations': len(events),
            'distinct_nontrivial': len({e['rid'] for e in events}),
            'rule': 'a pool of %d (model, culture, query, reference) requests is observed: alone in a fresh interpreter, in pool order and reversed, as every ordered pair (a then b) in one process, '
                    'in seeded random histories of length 200, on the main thread and on a fresh worker thread (both orders), and from 8 free-running threads sharing the cached models; '
                    'every recognise call is one event; TLC (Trace_Purity) accepts iff all observations of a request equal its first one; distinct = distinct requests' % len(POOL),
            'exhaustive': False,
            'scenarios': dict(Counter(c['name'] for c in cases)),
            'mech_model_checks': [{'cfg': 'MC_Purity.cfg', 'violation': mc1['violation'], 'distinct_states': mc1['distinct']},
                                  {'cfg': 'MC_Purity_threadctx.cfg (results read the thread-local decimal context)', 'violation': mc2['violation'], 'distinct_states': mc2['distinct']}],
            'binding_selftest': 'passed', 'failing_events': res['nbad'], 'known_findings_hit': sorted(V.known_hits),
        }, time.time() - t0, len(V.new), common.STD_ASSUMPTIONS + [common.SHIM_ASSUMPTION])
        return rc
    finally:
        wd.cleanup()


def replay(path):
    rec = json.load(open(path, encoding='utf-8'))
    print(json.dumps(rec, ensure_ascii=False, indent=1)[:3000])
    print('replay of C02 scenarios: rerun ./check C02 (scenarios are regenerated from VERIF_SEED)')
    return run('quick')
