"""C19 - The Python port agrees with the cross-platform Specs wherever it claims support."""
import copy
import json
import os
import re
import subprocess
import sys
import time
import xml.etree.ElementTree as ET

from .. import common, tlc, pool, judge, flow, corpus

PROP = 'C19'


KEYS = {'currency': ['value', 'unit', 'isoCurrency'], 'dimension': ['value', 'unit', 'isoCurrency'], 'temperature': ['value', 'unit', 'isoCurrency'],
        'age': ['value', 'unit', 'isoCurrency'], 'ip': ['value', 'score'], 'guid': ['value', 'score'], 'phone': ['value', 'score'], 'email': ['value', 'score'],
        'url': ['value', 'score'], 'hashtag': ['value', 'score'], 'mention': ['value', 'score']}


def _s(v):
    if isinstance(v, bool):
        return 'true' if v else 'false'
    return str(v)


def norm_expected(results):
    out = []
    for r in results:
        e = {'text': str(r.get('Text', '')).lower(), 'type': r.get('TypeName', '')}
        if 'Start' in r:
            e['s'] = int(r['Start'])
        if 'End' in r:
            e['e'] = int(r['End'])
        res = r.get('Resolution') or {}
        nr = {}
        for k, v in res.items():
            if v is None:
                continue
            if k == 'values' and isinstance(v, list):
                nr['values'] = [{kk: _s(vv) for kk, vv in item.items() if vv is not None} for item in v if isinstance(item, dict)]
            elif isinstance(v, (list, dict)):
                continue
            else:
                nr[k] = _s(v)
        e['res'] = nr
        out.append(e)
    return out


def norm_obs(o):
    if 'ents' not in o:
        return o
    ents = []
    for e in o['ents']:
        ents.append({'text': e['text'].lower(), 'type': e['type'], 's': e['s'], 'e': e['e'], 'res': e['res']})
    return {'ents': ents}


def pytest_levels(V):
    """Extractor / Parser / MergedParser levels (and option-specific model files): the repository's own spec-driven runner,
    run against /repo's working tree with the shims; every failing test is a disagreement with the Specs."""
    env = dict(os.environ)
    env['PYTHONPATH'] = common.repo_pythonpath()
    env['PYTHONDONTWRITEBYTECODE'] = '1'
    env.pop(common.GUARD, None)
    xml = os.path.join(common.WORK_ROOT, 'c19-junit-%d.xml' % os.getpid())
    cmd = [sys.executable, '-m', 'pytest', 'tests', '-q', '-n', str(max(2, common.NPROC - 2)), '-p', 'no:cacheprovider', '--junitxml=' + xml]
    p = subprocess.run(cmd, cwd=os.path.join(common.REPO, 'Python'), env=env, stdout=subprocess.PIPE, stderr=subprocess.STDOUT, timeout=3000)
    if not os.path.exists(xml):
        print('MACHINERY: the repository runner produced no junit file\n' + p.stdout.decode('utf-8', 'replace')[-2000:])
        raise SystemExit(2)
    root = ET.parse(xml).getroot()
    os.remove(xml)
    total = passed = skipped = 0
    failed = []
    for tc in root.iter('testcase'):
        total += 1
        if tc.find('skipped') is not None:
            skipped += 1
        elif tc.find('failure') is not None or tc.find('error') is not None:
            failed.append('%s::%s' % (tc.get('classname'), tc.get('name')))
        else:
            passed += 1
    for t in failed:
        m = re.match(r'(.*?)::(test_\w+)\[(.*)\]$', t)
        V.violation({'level': 'runner', 'test': m.group(2) if m else t, 'case': (m.group(3) if m else t)[:200]}, {'test': t})
    return {'runner_tests': total, 'runner_passed': passed, 'runner_skipped': skipped, 'runner_failed': len(failed)}


def run(tier):
    t0 = time.time()
    wd = common.WorkDir(PROP)
    V = common.Verdicts(PROP)
    try:
        work = tlc.stage(wd.sub('spec'), {})
        cs = corpus.model_cases()
        cases = []
        for c in cs:
            cases.append({'api': c['api'], 'culture': c['culture'], 'text': c['text'], 'ref': c['ref'], 'file': c['file'], 'index': c['index'],
                          'c': {'exp': norm_expected(c['expected']), 'keys': KEYS.get(c['api'], ['value'])}})
        obs = pool.run_cases(cases, init_name='all', batch=40, timeout=30.0, progress=PROP)
        events = []
        for i, (c, o) in enumerate(zip(cases, obs)):
            if o.get('timeout'):
                V.violation({'level': 'model', 'file': c['file'], 'index': c['index'], 'clause': 'NoReturn'}, {'case': {k: v for k, v in c.items() if k != 'c'}})
                continue
            events.append({'id': i, 'c': c['c'], 'obs': norm_obs(o)})
        res = judge.judge(work, 'Trace_Specs', events, min_shard=600)
        # binding self-test
        src = next((e for e in events if 'ents' in e['obs'] and len(e['obs']['ents']) == 1 and e['obs']['ents'][0]['res'].get('value')
                    and len(e['c']['exp']) == 1 and 's' in e['c']['exp'][0] and e['c']['exp'][0]['res'].get('value')), None)
        st = []
        a = copy.deepcopy(src); a['obs']['ents'][0]['res']['value'] += '1'; st.append(a)
        b = copy.deepcopy(src); b['obs']['ents'][0]['s'] += 1; st.append(b)
        c2 = copy.deepcopy(src); c2['obs']['ents'] = []; st.append(c2)
        st.append(copy.deepcopy(src))
        for j, e in enumerate(st):
            e['id'] = j
        rs = judge.judge(work, 'Trace_Specs', st, shards=1)
        if sorted(x[0] for x in rs['bad']) != [0, 1, 2]:
            print('MACHINERY: binding self-test failed: %s' % (rs['bad'],))
            return 2
        for eid, clause in res['bad']:
            c = cases[eid]
            V.violation({'level': 'model', 'file': c['file'], 'index': c['index'], 'clause': clause.split(':')[0]},
                        {'case': {k: v for k, v in c.items() if k != 'c'}, 'expected': c['c']['exp'], 'observed': obs[eid], 'clause': clause})
        runner = pytest_levels(V) if (tier == 'thorough' or os.environ.get('VERIF_C19_RUNNER', '1') == '1') else {}
        rc = V.finish(max_print=60)
        common.write_evidence(PROP, tier, 'exploration', {
            'evaluations': len(cases) + runner.get('runner_tests', 0) - runner.get('runner_skipped', 0),
            'distinct_nontrivial': len({(c['file'], c['index']) for c in cases}),
            'rule': 'every Python-supported Model-level case of Specs/<Recognizer>/<Language>/*Model.json (default options, 12 cultures) is replayed through the public recognize_* functions '
                    'and judged by TLC with SpecsAgree!Verdict (count, order, text, type, offsets where given, listed resolution fields); the Extractor / Parser / MergedParser levels and the '
                    'option-specific files are decided by the repository own spec-driven runner (Python/tests) executed against the working tree; distinct = distinct (file, index) cases',
            'samples': [{'case': {k: v for k, v in c.items() if k != 'c'}, 'expected': c['c']['exp'], 'observed': o} for c, o in flow.sample_evenly(list(zip(cases, obs)), 4)],
            'exhaustive': True,
            'states': res['states'], 'transitions': res['transitions'], 'traces_validated_against_impl': res['n'],
            'model_level_failing': res['nbad'], 'binding_selftest': 'passed', 'known_findings_hit': sorted(V.known_hits), **runner,
        }, time.time() - t0, len(V.new), common.STD_ASSUMPTIONS + [common.SHIM_ASSUMPTION, 'the Specs corpus is the oracle; TLA+ contributes only the agreement relation'])
        return rc
    finally:
        wd.cleanup()


def replay(path):
    rec = json.load(open(path, encoding='utf-8'))
    print(json.dumps(rec, ensure_ascii=False, indent=1)[:3000])
    return run('quick')
