"""C10 - Durations and explicit ranges are arithmetically self-consistent."""
import random

from .. import common, flow, pool
from . import dt_common as d
from . import res_common as r

PROP = 'C10'


def key_of(case, clause):
    c = case['c']
    return {'fam': c['fam'], 'text': c['text'], 'clause': clause.split(':')[0]}


def make_post(tier):
    def post(work, V, gen_cases, gen_obs):
        """part 3: TripleConsistent on every range entity recorded from the Specs date-time inputs in
        every culture and from the generated cases of this check."""
        rnd = random.Random(common.seed())
        cases = r.corpus_cases(tier, rnd, 1 if tier == 'quick' else 4)
        obs = pool.run_cases(cases, init_name='datetime', batch=40, timeout=20.0, progress=PROP + '/triples')
        g, st = flow.generate(work, 'Gen_Ranges', 'Gen_Ranges.cfg')
        rcases = [{'api': 'datetime', 'text': d.unescape(s_['c']['text']), 'culture': s_['c']['culture'], 'ref': s_['c']['ref'], 'src': 'generated:Gen_Ranges'} for s_ in st]
        rcases.sort(key=lambda c: (c['text'], c['ref']))
        robs = pool.run_cases(rcases, init_name='datetime', batch=40, timeout=20.0)
        allc = cases + rcases + [{'api': 'datetime', 'text': c['text'], 'culture': c['culture'], 'ref': c['ref'], 'src': 'generated'} for c in gen_cases]
        allo = obs + robs + list(gen_obs)
        events, res = r.judge_cases(work, allc, allo, 'triple')
        ok = r.selftest(work, events, 'triple')
        if ok is not True:
            print('MACHINERY: triple self-test %s' % ('found no range with a definite TIMEX triple' if ok is None else 'failed'))
            raise SystemExit(2)
        for eid, clause in res['bad']:
            V.violation(r.key_of(allc[eid], clause, allo[eid]), {'case': allc[eid], 'observed': allo[eid], 'clause': clause})
        ntriples = sum(1 for o in allo for e in (o.get('ents') or []) for v in (e['res'].get('values') or []) if str(v.get('timex', '')).startswith('('))
        return {'states': res['states'], 'transitions': res['transitions'], 'traces_validated_against_impl': res['n'], 'evaluations': len(cases),
                'triple_values_checked': ntriples, 'triple_failing_events': res['nbad'], 'triple_selftest': 'passed'}
    return post


def run(tier):
    return flow.run_standard(
        PROP, tier, gens=[{'module': 'Gen_DurRange', 'cfg': 'Gen_DurRange_%s.cfg' % tier}],
        case_of=d.case_of, trace=d.TRACE, key_of=key_of, corruptors=d.CORRUPTORS, init_name='datetime', batch=20, timeout=20.0,
        rule='(1)(2) cases = terminal states of Gen_DurRange (%s): N x {second..year} durations with value = N x unit seconds computed on digit strings; ordered pairs of '
             'boundary dates in from-to / between-and phrasing (ISO and m/d/yyyy), time pairs in am/pm and 24-hour form; replayed into recognize_datetime, judged by TLC (Trace_DT). '
             '(3) every range entity recorded from all Python-supported Specs date-time inputs (all cultures, own and further references), from the range expressions of Gen_Ranges '
             '(date word x clock-time pairs that wrap midnight, coincide or are reversed; reversed and equal date pairs) and from the generated cases is judged by '
             'TLC with DurRange!TripleVerdict (Trace_Resolution, mode triple)' % tier,
        assumptions=d.ASSUME, exhaustive=True, post=make_post(tier))


def replay(path):
    import json
    rec = json.load(open(path, encoding='utf-8'))
    if 'c' in rec['detail']['case']:
        return flow.replay_standard(PROP, path, d.TRACE, 'datetime', timeout=30.0)
    from .. import tlc
    c = rec['detail']['case']
    wd = common.WorkDir(PROP + 'r')
    try:
        work = tlc.stage(wd.sub('spec'), {})
        o = pool.run_cases([c], init_name='datetime', batch=1, timeout=30)[0]
        ev, res = r.judge_cases(work, [c], [o], 'triple')
        print(json.dumps({'case': c, 'observed': o, 'verdict': res['bad']}, ensure_ascii=False, indent=1))
        if res['nbad']:
            print('VIOLATION property=%s replay=%s' % (PROP, path))
            return 1
        return 0
    finally:
        wd.cleanup()
