"""C13 - IP addresses, GUIDs and other sequence entities: sound and complete recognition."""
import random

from .. import common, flow

PROP = 'C13'
TRACE = ('Trace_SeqEntities', 'Trace_SeqEntities.cfg')


def case_of(st):
    c = st['c']
    return {'api': c['api'], 'text': c['text'], 'culture': 'en-us', 'c': c}


def key_of(case, clause):
    c = case['c']
    return {'kind': c['kind'], 'text': c['text'], 'clause': clause.split(':')[0]}


def make_extra(tier):
    def extra(work):
        """seeded addresses over the full 2^32 / 2^128 spaces: parameters chosen here, rendered here, oracle still in TLA+
        (value must denote the same address as the text, which TLC recomputes from both strings)"""
        rnd = random.Random(common.seed())
        out = []
        n = 800 if tier == 'quick' else 20000
        for _ in range(n):
            q = [rnd.choice([rnd.randint(0, 255), rnd.choice([0, 1, 9, 10, 99, 100, 199, 200, 249, 250, 255])]) for _ in range(4)]
            t = '.'.join(str(x) for x in q)
            pre, post = rnd.choice([('', ''), ('x is ', ' ok'), ('(', ')')])
            out.append({'api': 'ip', 'text': pre + t + post, 'culture': 'en-us',
                        'c': {'api': 'ip', 'kind': 'ipv4-random', 'text': pre + t + post, 's': len(pre), 'e': len(pre) + len(t) - 1, 'value': t, 'complete': True}})
        for _ in range(n):
            g = [rnd.choice([0, 0, rnd.randint(1, 65535), rnd.choice([1, 15, 16, 255, 256, 4095, 4096, 65535])]) for _ in range(8)]
            up = rnd.random() < 0.4
            pad = rnd.random() < 0.3
            hs = [('%04x' if pad else '%x') % x for x in g]
            if up:
                hs = [h.upper() for h in hs]
            # compress the first longest zero run (if any), as a writer of a canonical address would
            best, cur = (0, 0), None
            for i, x in enumerate(g + [1]):
                if x == 0 and cur is None:
                    cur = i
                if x != 0 and cur is not None:
                    if i - cur > best[1]:
                        best = (cur, i - cur)
                    cur = None
            if best[1] >= 1 and rnd.random() < 0.7:
                t = ':'.join(hs[:best[0]]) + '::' + ':'.join(hs[best[0] + best[1]:])
            else:
                t = ':'.join(hs)
            canon = ':'.join('%x' % x for x in g)
            pre, post = rnd.choice([('', ''), ('x is ', ' ok')])
            out.append({'api': 'ip', 'text': pre + t + post, 'culture': 'en-us',
                        'c': {'api': 'ip', 'kind': 'ipv6-random', 'text': pre + t + post, 's': len(pre), 'e': len(pre) + len(t) - 1, 'value': canon, 'complete': True}})
        return out
    return extra


one = lambda e: e['c']['complete'] and len(e['obs'].get('ents', [])) == 1 and 'value' in e['obs']['ents'][0]['res'] and e['obs']['ents'][0]['s'] == e['c']['s']
v4 = lambda e: one(e) and e['c']['kind'].startswith('ipv4')
v6 = lambda e: one(e) and e['c']['kind'].startswith('ipv6-c')


def _shift(e):
    e['obs']['ents'][0]['e'] -= 1
    return e


def _octet(e):
    v = e['obs']['ents'][0]['res']['value'].split('.')
    v[1] = '7' if v[1] != '7' else '8'
    e['obs']['ents'][0]['res']['value'] = '.'.join(v)
    return e


def _invalid(e):
    e['obs']['ents'][0]['text'] = '300.1.1.1'
    return e


def _hextet(e):
    v = e['obs']['ents'][0]['res']['value']
    e['obs']['ents'][0]['res']['value'] = v[:-1] + ('2' if v[-1] != '2' else '3')
    return e


def make_post(tier):
    def post(work, V, cases, obs):
        from .. import mechbind
        info = mechbind.drop_zeros(work, V, tier)
        return {'mech_model_checks': info, 'states': sum(m['distinct_states'] for m in info), 'transitions': sum(m['distinct_states'] for m in info)}
    return post


def run(tier):
    return flow.run_standard(
        PROP, tier, gens=[{'module': 'Gen_SeqEntities', 'cfg': 'Gen_SeqEntities_%s.cfg' % tier}],
        case_of=case_of, trace=TRACE, key_of=key_of, corruptors=[(one, _shift), (v4, _octet), (v4, _invalid), (v6, _hextet)],
        init_name='sequence', batch=200, timeout=15.0, extra_cases=make_extra(tier),
        rule='cases = terminal states of Gen_SeqEntities (%s): IPv4 products of boundary octets with and without leading zeros, near misses; IPv6 base patterns x every zero-run placement '
             'x padding x letter case, full and compressed; GUIDs x 4 layouts; e-mail / URL (15 TLDs) / hashtag / mention / phone grammars; x carriers; plus seeded random IPv4 / IPv6 addresses; '
             'replayed into the recognize_* functions; TLC recomputes the address denoted by text and value (expansion of "::" in TLA+) (Trace_SeqEntities)' % tier,
        assumptions=common.STD_ASSUMPTIONS, exhaustive=False, post=make_post(tier))


def replay(path):
    return flow.replay_standard(PROP, path, TRACE, 'sequence')
