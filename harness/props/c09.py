"""C09 - Dates without a year resolve to the nearest past and next future occurrence."""
from .. import flow
from . import dt_common as d

PROP = 'C09'


def key_of(case, clause):
    c = case['c']
    return {'kind': c['kind'], 'rel': c['rel'], 'tod': c['tod'], 'text': c['text'], 'ref': c['ref'], 'clause': clause.split(':')[0]}


def _post(work, V, cases, obs):
    from .. import mechbind
    info = mechbind.generate_dates(work, V)
    return {'mech_model_checks': info, 'states': sum(m['distinct_states'] for m in info), 'transitions': sum(m['distinct_states'] for m in info)}


def run(tier):
    return flow.run_standard(
        PROP, tier, gens=[{'module': 'Gen_OpenDate', 'cfg': 'Gen_OpenDate_%s.cfg' % tier}],
        case_of=d.case_of, trace=d.TRACE, key_of=key_of, corruptors=d.CORRUPTORS, init_name='datetime', batch=40, timeout=20.0,
        rule='cases = terminal states of Gen_OpenDate (%s): (month, day) x layouts x reference days (the day before / itself / after in leap and non-leap years, '
             'year ends, leap-day neighbourhood) x time of day; seven weekday names x 14 consecutive reference days x time of day; oracle = bounded search on day '
             'ordinals in OpenDate.tla; exactly two values in the order past, future; verdict by TLC (Trace_DT)' % tier,
        assumptions=d.ASSUME, exhaustive=True, post=_post, history_of=lambda case: case['text'], history_reverse=True)


def replay(path):
    return flow.replay_standard(PROP, path, d.TRACE, 'datetime', timeout=30.0)
