"""C20 - Yes/no answers keep their polarity."""
from .. import common, flow

PROP = 'C20'
TRACE = ('Trace_Choice', 'Trace_Choice.cfg')


def case_of(st):
    c = st['c']
    return {'api': 'boolean', 'text': c['text'], 'culture': 'en-us', 'c': c}


def key_of(case, clause):
    return {'expr': case['c']['expr'], 'kind': case['c']['kind'], 'clause': clause.split(':')[0]}


def _flip(e):
    v = e['obs']['ents'][0]['res']['value']
    e['obs']['ents'][0]['res']['value'] = 'false' if v.lower() == 'true' else 'true'
    return e


def _shift(e):
    e['obs']['ents'][0]['s'] += 1
    e['obs']['ents'][0]['e'] += 1
    return e


def _score(e):
    e['obs']['ents'][0]['res']['score'] = '1.5'
    return e


def _dup(e):
    e['obs']['ents'].append(dict(e['obs']['ents'][0]))
    return e


def _spurious(e):
    e['obs']['ents'] = [{'s': 0, 'e': 0, 'text': 'x', 'type': 'boolean', 'res': {'value': 'True', 'score': '0.0'}}]
    return e


def _post(work, V, cases, obs):
    from .. import mechbind
    info = mechbind.choice_match(work, V)
    return {'mech_model_checks': info, 'states': sum(m['distinct_states'] for m in info), 'transitions': sum(m['distinct_states'] for m in info)}


def run(tier):
    single = lambda e: e['c']['kind'] == 'single' and len(e['obs'].get('ents', [])) == 1
    neutral = lambda e: e['c']['kind'] == 'neutral' and e['c']['text'].strip() and not e['obs'].get('ents')
    return flow.run_standard(
        PROP, tier,
        gens=[{'module': 'Gen_Choice', 'cfg': 'Gen_Choice.cfg'}],
        case_of=case_of, trace=TRACE, key_of=key_of,
        corruptors=[(single, _flip), (single, _shift), (single, _score), (single, _dup), (neutral, _spurious)],
        init_name='choice', batch=100,
        rule='cases = terminal states of Gen_Choice (every listed true/false word x 4 letter-case variants and every emoji alternative, with and '
             'without skin-tone modifier, x prefixes x suffixes; every true/false pair in both orders x separators; every sequence of <=3 neutral '
             'tokens); each replayed into recognize_boolean(en-us); non-trivial = an entity was returned; verdict by TLC (Trace_Choice)',
        assumptions=common.STD_ASSUMPTIONS + [common.SHIM_ASSUMPTION],
        exhaustive=True, post=_post)


def replay(path):
    return flow.replay_standard(PROP, path, TRACE, 'choice')
