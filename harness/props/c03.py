"""C03 - Numeric literals resolve to exactly the number written, in every culture."""
from .. import common, flow
from . import dt_common as d

PROP = 'C03'
TRACE = ('Trace_NumLiteral', 'Trace_NumLiteral.cfg')


def case_of(st):
    c = st['c']
    return {'api': c['api'], 'text': d.unescape(c['text']), 'culture': c['culture'], 'c': c}


def key_of(case, clause):
    c = case['c']
    return {'culture': c['culture'], 'model': c['api'], 'shape': c['shape'], 'form': c['shape'].replace('-carrier', ''), 'text': c['text'], 'clause': clause.split(':')[0]}


one = lambda e: len(e['obs'].get('ents', [])) == 1 and 'value' in e['obs']['ents'][0]['res'] and e['obs']['ents'][0]['s'] == e['c']['s']
frac = lambda e: one(e) and e['c']['num'][2] != '' and not e['c']['pct']


def _shift(e):
    e['obs']['ents'][0]['s'] += 1
    return e


def _digit(e):
    v = e['obs']['ents'][0]['res']['value']
    e['obs']['ents'][0]['res']['value'] = v.replace(v[0] if v[0].isdigit() else v[1], '8' if (v[0] if v[0].isdigit() else v[1]) != '8' else '7', 1)
    return e


def _mark(e):
    v = e['obs']['ents'][0]['res']['value']
    e['obs']['ents'][0]['res']['value'] = v.replace(',', ';').replace('.', ',').replace(';', '.')
    return e


def _two(e):
    e['obs']['ents'].append(dict(e['obs']['ents'][0]))
    return e


def make_post(tier):
    def post(work, V, cases, obs):
        from .. import mechbind
        info = mechbind.digital_value(work, V, tier)
        return {'mech_model_checks': info, 'states': sum(m['distinct_states'] for m in info), 'transitions': sum(m['distinct_states'] for m in info)}
    return post


def run(tier):
    return flow.run_standard(
        PROP, tier, gens=[{'module': 'Gen_NumLiteral', 'cfg': 'Gen_NumLiteral_%s.cfg' % tier}],
        case_of=case_of, trace=TRACE, key_of=key_of, corruptors=[(one, _shift), (one, _digit), (frac, _mark), (one, _two)],
        init_name='number', batch=200, timeout=15.0,
        rule='cases = terminal states of Gen_NumLiteral (%s): boundary digit strings of each length x {plain, grouped} x fraction x sign x {alone, carrier sentence} x {number, percent} '
             'x 10 cultures, at most 15 significant digits, marks per culture written in NumLiteral.tla; replayed into recognize_number / recognize_percentage; the observed value string is '
             'parsed by TLC (incl. E+nn forms) and compared as a number; non-trivial = an entity was returned' % tier,
        assumptions=common.STD_ASSUMPTIONS, exhaustive=True, post=make_post(tier))


def replay(path):
    return flow.replay_standard(PROP, path, TRACE, 'number')
