"""C15 - TIMEX resolution and constraint solving only return correct, valid values."""
import copy
import json
import time

from .. import common, tlc, pool, judge, flow

PROP = 'C15'


def to_case(st):
    call = dict(st['call'])
    call['c'] = st['c']
    return call


def canon(case):
    c = case['c']
    if c['k'] == 'eval':
        return {'api': 'evaluate', 'candidates': case['candidates'], 'constraints': case['constraints']}
    return {'api': 'resolve', 'timex': c['timex'], 'ref': case.get('ref')}


def selftest(work, events, bad_ids=()):
    """corrupt observations that TLC accepts (a change under test may have broken many others: the genuine candidates are
    judged first and only accepted ones are corrupted)"""
    cands = {'wd': [], 'du': [], 'ym': [], 'ev': []}
    for e in events:
        if e['id'] in bad_ids or 'exception' in e['obs'] or 'timeout' in e['obs']:
            continue
        k = e['c']['k']
        if k == 'weekday' and len(cands['wd']) < 12:
            cands['wd'].append(e)
        if k == 'duration' and len(cands['du']) < 12:
            cands['du'].append(e)
        if k == 'yearmonth' and len(cands['ym']) < 12:
            cands['ym'].append(e)
        if k == 'eval' and e['obs']['timexes'] and len(cands['ev']) < 40 and len(e['c']['cands']) == 1 and e['c']['cands'][0]['k'] == 'wd' and len(e['c']['dr']) == 1 and not e['c']['tr'] and len(e['obs']['timexes']) > 1:
            cands['ev'].append(e)
    flat = [copy.deepcopy(e) for k in ('wd', 'du', 'ym', 'ev') for e in cands[k]]
    kinds = [k for k in ('wd', 'du', 'ym', 'ev') for _ in cands[k]]
    for n, e in enumerate(flat):
        e['id'] = n
    if not flat:
        return False
    r0 = judge.judge(work, 'Trace_TimexResolve', flat, shards=1)
    rejected = {b[0] for b in r0['bad']}
    picks = {}
    for n, (k, e) in enumerate(zip(kinds, flat)):
        if n not in rejected and k not in picks:
            picks[k] = e
    if len(picks) < 4:
        return False
    bad = []
    e = copy.deepcopy(picks['wd']); e['obs']['values'][1]['value'] = e['obs']['values'][0]['value']; bad.append(e)
    e = copy.deepcopy(picks['du']); e['obs']['values'][0]['value'] = e['obs']['values'][0]['value'] + '1'; bad.append(e)
    e = copy.deepcopy(picks['ym']); e['obs']['values'][0]['end'] = e['obs']['values'][0]['start']; bad.append(e)
    e = copy.deepcopy(picks['ev']); e['obs']['timexes'] = e['obs']['timexes'][1:]; bad.append(e)
    e = copy.deepcopy(picks['ev']); e['obs']['timexes'] = e['obs']['timexes'] + ['']; bad.append(e)
    good = copy.deepcopy(picks['ev'])
    allv = bad + [good]
    for k, e in enumerate(allv):
        e['id'] = k
    r = judge.judge(work, 'Trace_TimexResolve', allv, shards=1)
    return r['nbad'] == 5 and sorted(b[0] for b in r['bad']) == [0, 1, 2, 3, 4]


def collapse_mech(work, V):
    """Model-check the transcription of inner_collapse (termination, no growth, results inside
    supplied ranges) and compare the real helper with it on every initial list (advisory)."""
    mc = tlc.run(work, 'ConstraintCollapse', cfg='MC_Collapse.cfg', dump=True, timeout=900)
    if not mc['ok']:
        V.note('mechanism-drift: ConstraintCollapse (transcription of inner_collapse) violates %s at design level' % mc['violation'])
    finals = {}
    for st in tlc.read_dump(mc['dump'], where='pc = "done"'):
        finals[json.dumps(st['init'])] = st['ranges']
    cases = [{'api': 'collapse', 'ranges': json.loads(k)} for k in sorted(finals)]
    obs = pool.run_cases(cases, init_name='timex', timeout=5.0, batch=100)
    drift = 0
    for c, o in zip(cases, obs):
        want = finals[json.dumps(c['ranges'])]
        if o.get('timeout') or o.get('ranges') != want:
            drift += 1
            if drift <= 3:
                V.note('mechanism-drift: collapse(%s) observed %s, ConstraintCollapse predicts %s' % (c['ranges'], o, want))
    return mc, len(cases), drift


def run(tier):
    t0 = time.time()
    wd = common.WorkDir(PROP)
    V = common.Verdicts(PROP)
    try:
        work = tlc.stage(wd.sub('spec'), {})
        cfg = 'Gen_TimexResolve_%s.cfg' % tier
        gen, states = flow.generate(work, 'Gen_TimexResolve', cfg)
        cases = [to_case(st) for st in states]
        cases.sort(key=lambda c: json.dumps(canon(c), sort_keys=True))
        obs = pool.run_cases(cases, init_name='timex', timeout=10.0, batch=200, progress=PROP)
        events = [{'id': i, 'c': c['c'], 'obs': o} for i, (c, o) in enumerate(zip(cases, obs))]
        res = judge.judge(work, 'Trace_TimexResolve', events)
        if not selftest(work, events, {b[0] for b in res['bad']}):
            print('MACHINERY: binding self-test failed (corrupted observations were accepted)')
            return 2
        mc, n_collapse, drift = collapse_mech(work, V)
        for eid, clause in res['bad']:
            c = cases[eid]
            key = dict(canon(c), clause=clause.split(':')[0])
            V.violation(key, {'call': canon(c), 'scenario': c['c'], 'observed': obs[eid], 'clause': clause})
        if res['nbad'] > len(res['bad']):
            V.note('%d failing events in total; first %d reported' % (res['nbad'], len(res['bad'])))
        rc = V.finish()
        n_eval = sum(1 for c in cases if c['c']['k'] == 'eval')
        common.write_evidence(PROP, tier, 'model_checking', {
            'states': gen['distinct'] + res['states'] + mc['distinct'],
            'transitions': (gen['generated'] - len(cases)) + res['transitions'] + mc['generated'],
            'traces_validated_against_impl': res['n'],
            'samples': [{'call': canon(c), 'observed': o} for c, o in flow.sample_evenly(list(zip(cases, obs)), 6)],
            'evaluations': len(cases),
            'distinct_nontrivial': len({json.dumps(canon(c), sort_keys=True) for c, o in zip(cases, obs) if o.get('values') or o.get('timexes')}),
            'rule': 'scenarios = terminal states of Gen_TimexResolve under %s (resolve: weekday x reference day, durations, years, year-months, open months; '
                    'evaluate: candidate sets x date-range sets x time-range sets); each replayed into TimexResolver.resolve / TimexRangeResolver.evaluate; '
                    'non-trivial = the call returned at least one value; verdict by TLC (Trace_TimexResolve)' % cfg,
            'exhaustive': True,
            'resolve_cases': len(cases) - n_eval, 'evaluate_cases': n_eval,
            'mech_model_check': {'module': 'ConstraintCollapse', 'cfg': 'MC_Collapse.cfg', 'distinct_states': mc['distinct'],
                                 'violation': mc['violation'], 'lists_replayed_into_collapse': n_collapse, 'drift': drift},
            'binding_selftest': 'passed',
            'known_findings_hit': sorted(V.known_hits),
        }, time.time() - t0, len(V.new), common.STD_ASSUMPTIONS)
        return rc
    finally:
        wd.cleanup()


def replay(path):
    rec = json.load(open(path, encoding='utf-8'))
    d = rec['detail']
    call = d['call']
    case = {'c': d['scenario']}
    if call['api'] == 'evaluate':
        case.update(api='timex_evaluate', candidates=call['candidates'], constraints=call['constraints'])
    else:
        case.update(api='timex_resolve', timexes=[call['timex']], ref=call['ref'])
    wd = common.WorkDir(PROP + 'r')
    try:
        work = tlc.stage(wd.sub('spec'), {})
        obs = pool.run_cases([case], init_name='timex', batch=1)
        res = judge.judge(work, 'Trace_TimexResolve', [{'id': 0, 'c': case['c'], 'obs': obs[0]}], shards=1)
        print(json.dumps({'call': call, 'observed': obs[0], 'verdict': res['bad']}, ensure_ascii=False, indent=1))
        if res['nbad']:
            print('VIOLATION property=%s replay=%s' % (PROP, path))
            return 1
        return 0
    finally:
        wd.cleanup()
