"""C01 - Entity spans point at the text they claim to have recognised."""
from . import spans_common


def run(tier):
    return spans_common.run('C01', tier, 'span')


def replay(path):
    return spans_common.replay('C01', path, 'span')
