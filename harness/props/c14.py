"""C14 - TIMEX strings survive parsing and formatting unchanged."""
import copy
import datetime
import random
import time

from .. import common, tlc, pool, judge

PROP = 'C14'


def from_cases(tier, rnd):
    cases = []
    years = [1, 1999, 2000, 2024, 9999] if tier == 'quick' else [1, 2, 999, 1000, 1900, 1999, 2000, 2023, 2024, 2100, 9998, 9999]
    times = [(0, 0, 0), (0, 0, 1), (0, 1, 0), (12, 0, 0), (12, 30, 0), (23, 59, 59), (1, 0, 59)]
    for y in years:
        d = datetime.date(y, 1, 1)
        while d.year == y:
            if tier == 'thorough' or d.day in (1, 15, 28, 29, 30, 31):
                cases.append(('date', d.year, d.month, d.day, 0, 0, 0))
                h, mi, s = times[(d.toordinal()) % len(times)]
                cases.append(('datetime', d.year, d.month, d.day, h, mi, s))
            if d.month == 12 and d.day == 31:
                break
            d += datetime.timedelta(days=1)
    for h in range(24):
        for mi in (0, 1, 30, 59):
            for s in (0, 1, 30, 59):
                cases.append(('time', 1, 1, 1, h, mi, s))
    n_rand = 2000 if tier == 'quick' else 50000
    for _ in range(n_rand):
        o = rnd.randint(1, datetime.date(9999, 12, 31).toordinal())
        d = datetime.date.fromordinal(o)
        h, mi, s = rnd.randint(0, 23), rnd.choice([0, 0, rnd.randint(0, 59)]), rnd.choice([0, 0, rnd.randint(0, 59)])
        cases.append((rnd.choice(['date', 'datetime']), d.year, d.month, d.day, h, mi, s))
    out = []
    for k, (kind, y, mo, d, h, mi, s) in enumerate(cases):
        out.append({'api': 'timex_from', 'kind': kind, 'y': y, 'mo': mo, 'd': d, 'h': h, 'mi': mi, 'sec': s})
    return out


def build_events(cases, obs):
    events, inconclusive = [], 0
    for idx, (c, o) in enumerate(zip(cases, obs)):
        if o.get('timeout'):
            inconclusive += 1
            continue
        if c['api'] == 'timex_roundtrip':
            events.append({'id': idx, 'k': 'rt', 'c': c['c'], 'obs': o})
        else:
            cc = {k: c[k] for k in ('kind', 'y', 'mo', 'd', 'h', 'mi', 'sec')}
            events.append({'id': idx, 'k': 'from', 'c': cc, 'obs': o})
    return events, inconclusive


def selftest(work, events):
    """Binding self-test: corrupt single fields of genuine observations; each must be rejected."""
    rt = [e for e in events if e['k'] == 'rt' and e['c']['canon'] and 'fmt1' in e['obs']][:3]
    fr = [e for e in events if e['k'] == 'from' and 'fmt1' in e['obs']][:1]
    if len(rt) < 3 or not fr:
        return False
    bad = []
    e = copy.deepcopy(rt[0]); e['obs']['fmt1'] = e['obs']['fmt1'] + '0'; bad.append(e)
    e = copy.deepcopy(rt[1]); e['obs']['fields2'] = dict(e['obs']['fields2'], year='1234567'); bad.append(e)
    e = copy.deepcopy(rt[2]); e['obs']['fmt2'] = 'T99'; bad.append(e)
    e = copy.deepcopy(fr[0]); e['obs']['fmt1'] = 'X' + e['obs']['fmt1']; bad.append(e)
    good = copy.deepcopy(rt[0])
    for k, e in enumerate(bad + [good]):
        e['id'] = k
    r = judge.judge(work, 'Trace_Timex', bad + [good], shards=1)
    return r['nbad'] == 4 and sorted(b[0] for b in r['bad']) == [0, 1, 2, 3]


def run(tier, only_cases=None):
    t0 = time.time()
    rnd = random.Random(common.seed())
    wd = common.WorkDir(PROP)
    V = common.Verdicts(PROP)
    try:
        work = tlc.stage(wd.sub('spec'), {})
        cfg = 'MC_Timex_%s.cfg' % tier
        mc = tlc.run(work, 'TimexMech', cfg=cfg, dump=True, extra=['-continue'], timeout=3000)
        if mc['rc'] not in (0, 12, 13) and not mc['distinct']:
            tlc.require_ok(mc, 'TimexMech/' + cfg)
        if mc['violation']:
            V.note('mechanism-drift: the transcription TimexOps violates %s at design level (TLC counterexample in TimexMech/%s)' % (mc['violation'], cfg))
        cases = []
        for st in tlc.read_dump(mc['dump'], where='pc = "done"'):
            cases.append({'api': 'timex_roundtrip', 'text': st['c']['text'], 'c': st['c']})
        if not cases:
            tlc.require_ok(dict(mc, rc=99), 'TimexMech dump (no terminal states)')
        cases.sort(key=lambda c: c['text'])
        n_gen = len(cases)
        cases += from_cases(tier, rnd)
        obs = pool.run_cases(cases, init_name='timex', timeout=10.0, batch=500, progress=PROP)
        events, inconclusive = build_events(cases, obs)
        res = judge.judge(work, 'Trace_Timex', events)
        st_ok = selftest(work, events)
        if not st_ok:
            print('MACHINERY: binding self-test failed (corrupted observations were accepted)')
            return 2
        byid = {e['id']: e for e in events}
        for eid, clause in res['bad']:
            e = byid[eid]
            c = cases[eid]
            key = {'api': c['api'], 'input': c.get('text') or [c[k] for k in ('kind', 'y', 'mo', 'd', 'h', 'mi', 'sec')],
                   'clause': clause.split(':')[0], 'kind': e['c'].get('kind')}
            V.violation(key, {'case': c, 'observed': e['obs'], 'clause': clause})
        if res['nbad'] > len(res['bad']):
            V.note('%d failing events in total; first %d reported' % (res['nbad'], len(res['bad'])))
        for eid in res['drift'][:10]:
            V.note('mechanism-drift: TimexOps predicts other fields/text than observed for %r' % (cases[eid].get('text'),))
        rc = V.finish()
        kinds = sorted({c['c']['kind'] for c in cases[:n_gen]})
        common.write_evidence(PROP, tier, 'model_checking', {
            'states': mc['distinct'] + res['states'],
            'transitions': max(mc['generated'] - n_gen, 1) + res['transitions'],
            'traces_validated_against_impl': res['n'],
            'samples': [{'text': cases[i]['text'], 'observed': obs[i]} for i in range(0, n_gen, max(1, n_gen // 5))][:5]
                       + [{'from': cases[n_gen], 'observed': obs[n_gen]}],
            'evaluations': len(cases),
            'distinct_nontrivial': len({c.get('text') for c in cases[:n_gen]}) + (len(cases) - n_gen),
            'rule': 'TIMEX strings = terminal states of the generator in spec/contract/Timex.tla under %s (kinds: %s), each replayed into '
                    'Timex(s)/timex_value() twice; from_* cases: calendar sweep + seeded random datetimes in 0001..9999; '
                    'every observation judged by TLC (Trace_Timex: Verdict/VerdictFrom)' % (cfg, ', '.join(kinds)),
            'exhaustive': True,
            'mech_model_check': {'module': 'TimexMech', 'cfg': cfg, 'distinct_states': mc['distinct'], 'invariant_violation': mc['violation']},
            'mechanism_drift_events': len(res['drift']),
            'binding_selftest': 'passed',
            'inconclusive_timeouts': inconclusive,
            'known_findings_hit': sorted(V.known_hits),
        }, time.time() - t0, len(V.new), common.STD_ASSUMPTIONS)
        return rc
    finally:
        wd.cleanup()


def replay(path):
    import json
    rec = json.load(open(path, encoding='utf-8'))
    c = rec['detail']['case']
    wd = common.WorkDir(PROP + 'r')
    try:
        work = tlc.stage(wd.sub('spec'), {})
        obs = pool.run_cases([c], init_name='timex', batch=1)
        events, _ = build_events([c], obs)
        res = judge.judge(work, 'Trace_Timex', events, shards=1)
        print(json.dumps({'case': c, 'observed': obs[0], 'verdict': res['bad']}, ensure_ascii=False, indent=1))
        if res['nbad']:
            print('VIOLATION property=%s replay=%s' % (PROP, path))
            return 1
        return 0
    finally:
        wd.cleanup()
