"""C08 - Relative date expressions are calendar arithmetic on the reference date."""
import re

from .. import flow
from . import dt_common as d

PROP = 'C08'


def ref_class(ref):
    """Coarse class of the reference day used to identify known findings."""
    import datetime
    dt = datetime.datetime.strptime(ref, '%Y-%m-%dT%H:%M:%S')
    cls = []
    if dt.day > 28:
        cls.append('day>28')
    iso = dt.isocalendar()
    if iso[1] in (1, 52, 53):
        cls.append('isoweek-boundary')
    if dt.month == 2 and dt.day == 29:
        cls.append('leapday')
    return '+'.join(cls) or 'ordinary'


def key_of(case, clause):
    c = case['c']
    expr = re.sub(r'\d+', 'N', c['text'])
    return {'expr': expr, 'ref': c['ref'], 'ref_class': ref_class(c['ref']), 'clause': clause.split(':')[0]}


def _post(work, V, cases, obs):
    from .. import mechbind
    info = mechbind.rel_period(work, V)
    return {'mech_model_checks': info, 'states': sum(m['distinct_states'] for m in info), 'transitions': sum(m['distinct_states'] for m in info)}


def run(tier):
    return flow.run_standard(
        PROP, tier, gens=[{'module': 'Gen_RelDate', 'cfg': 'Gen_RelDate_%s.cfg' % tier}],
        case_of=d.case_of, trace=d.TRACE, key_of=key_of, corruptors=d.CORRUPTORS, init_name='datetime', batch=40, timeout=20.0,
        rule='cases = terminal states of Gen_RelDate (%s): reference days (year boundaries, ISO week 52/53/1, leap day, month ends) x times of day x '
             '{today, tomorrow, yesterday, N days|weeks ago, in N days|weeks, N days from now, next/last/this <weekday>, this/next/last week|month|year, now}; '
             'oracle = calendar arithmetic of RelDate.tla on day ordinals; replayed into recognize_datetime twice: spread over the worker pool, and grouped so that one '
             'expression meets all its reference datetimes in ascending order in one process; verdict by TLC (Trace_DT)' % tier,
        assumptions=d.ASSUME, exhaustive=True, post=_post, history_of=lambda case: case['text'])


def replay(path):
    return flow.replay_standard(PROP, path, d.TRACE, 'datetime', timeout=30.0)
