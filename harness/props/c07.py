"""C07 - Clock times resolve to the right 24-hour time, alone or attached to a date."""
from .. import flow
from . import dt_common as d

PROP = 'C07'


def key_of(case, clause):
    c = case['c']
    return {'form': c['form'], 'hour': c['hour'], 'text': c['text'], 'clause': clause.split(':')[0]}


def run(tier):
    return flow.run_standard(
        PROP, tier, gens=[{'module': 'Gen_ClockTime', 'cfg': 'Gen_ClockTime_%s.cfg' % tier}],
        case_of=d.case_of, trace=d.TRACE, key_of=key_of, corruptors=d.CORRUPTORS, init_name='datetime', batch=40, timeout=20.0,
        rule='cases = terminal states of Gen_ClockTime (%s): HH:MM and HH:MM:SS for every hour, h:mm am/pm, h am/pm, h:mm without meridiem, and boundary times '
             'attached to date expressions (ISO date, month-name date, tomorrow); oracle ClockTime.tla (12 am = 00, 12 pm = 12, two readings for an hour 1-12 without am/pm); '
             'replayed into recognize_datetime; verdict by TLC (Trace_DT)' % tier,
        assumptions=d.ASSUME, exhaustive=True, history_of=lambda case: case['text'])


def replay(path):
    return flow.replay_standard(PROP, path, d.TRACE, 'datetime', timeout=30.0)
