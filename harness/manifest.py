"""Regenerates /verif/MANIFEST.json from the table below:  python -m harness.manifest"""
import json
import os

from . import common

BASELINE_OFF = ('cd /repo && env -u RECOGNIZERS_TEXT_VERIF /venv/bin/python -m pytest -ra -q -p no:cacheprovider '
                '--timeout=900 --continue-on-collection-errors')

# id -> (level category, level text, design_ref, level_note, technique)
CHECKS = {}
NOT_APPLICABLE = {}
PENDING_REASON = 'check not built yet in this round (planned in DESIGN.md section 4); nothing is claimed for it'


def check(pid, category, text, ref, note, technique):
    CHECKS[pid] = (category, text, ref, note, technique)


check('C14', 'model_checking',
      'TLC model-checks the transcribed parse/infer/format pipeline (TimexMech) against the contract on every generated TIMEX of the '
      'grammar (bounded-exhaustive over the constants of MC_Timex_<tier>.cfg); every generated string is then replayed into the real '
      'Timex class and each observation is judged by TLC (Trace_Timex) with the same contract; from_* constructors over a calendar sweep '
      'plus seeded datetimes in 0001..9999.',
      'DESIGN.md section 4, C14',
      'bounded: years/days/hours/amounts are the boundary sets of the cfg, not all values; TLC, the dump parser and the attribute-read projection are trusted',
      'TLA+ generator + TLC model checking of the transcription; spec->code replay; TLC trace validation')

check('C15', 'model_checking',
      'Scenarios are the terminal states of the TLA+ generator Gen_TimexResolve (bounded-exhaustive: weekdays x reference days, durations, '
      'years, months; candidate sets x ordered/unordered date-range and time-range constraint sets); each is replayed into TimexResolver.resolve / '
      'TimexRangeResolver.evaluate under a watchdog and judged by TLC against the calendar oracle of TimexResolve.tla (Trace_TimexResolve). '
      'TLC also model-checks the transcription of the constraint-collapse loop (ConstraintCollapse: termination, no growth, results inside supplied '
      'ranges) and the real helper is compared with it on all 1110 initial lists.',
      'DESIGN.md section 4, C15',
      'bounded: reference days, ranges and candidate pools are the finite sets of the cfg; Calendar.tla is model-checked for 1900..2100 (MC_Calendar); a call that does not return within 10 s counts as a violation (NoReturn)',
      'TLA+ scenario generator; spec->code replay; TLC trace validation; TLC model checking of the collapse loop')

check('C16', 'model_checking',
      'TLC model-checks character-at-a-time transcriptions of both tokenizers against the functional tokenisation of Matcher.tla for every class '
      'string up to MaxLen, and the trie insert/find loops against brute-force occurrences for all small dictionaries and queries; every enumerated '
      'class string (concretised from a closed code-point pool) and every (dictionary, query) state is replayed into SimpleTokenizer / '
      'NumberWithUnitTokenizer / StringMatcher (list, ids and dict forms), plus seeded random dictionaries (<=30 phrases) and queries (<=40 chars); '
      'TLC judges every observation (Trace_Matcher: token conditions, no-miss/no-extra occurrences on the observed token boundaries, text, ids).',
      'DESIGN.md section 4, C16',
      'exhaustive only up to MaxLen 4 (quick) / 6 (thorough) class strings and 2-phrase dictionaries; beyond that seeded sampling; characters outside the closed pool are not exercised',
      'TLC model checking of tokenizer/trie transcriptions; spec->code replay of every state; TLC trace validation')

check('C20', 'model_checking',
      'Every case of the TLA+ generator Gen_Choice (all listed affirmative/negative expressions incl. emoji with and without skin-tone modifier x letter case '
      'x prefixes/suffixes; all true/false pairs in both orders; all sequences of <=3 neutral tokens; empty/whitespace) is replayed into recognize_boolean and judged '
      'by TLC against Choice.tla (exactly one entity, span, polarity, score in [0,1], nothing on neutral text). Exhaustive over the generator in both tiers.',
      'DESIGN.md section 4, C20',
      'only the English boolean model exists; word lists are written in the spec (not read from the resource); surroundings are the finite pools of Gen_Choice.cfg',
      'TLA+ generator enumerated by TLC; spec->code replay; TLC trace validation')

NOT_APPLICABLE['C18'] = ('equates two sets of static files through the resource generator: no state, transition or case analysis for a TLA+ '
                         'specification to capture; the generator also cannot run here (ruamel.yaml is neither installed nor in the wheelhouse). '
                         'See DESIGN.md section 6.')

ALL = ['C%02d' % i for i in range(1, 21)]


def build():
    checks = []
    for pid in ALL:
        if pid not in CHECKS:
            continue
        cat, text, ref, note, tech = CHECKS[pid]
        checks.append({
            'property_id': pid,
            'quick_cmd': './check %s --tier quick' % pid,
            'thorough_cmd': './check %s --tier thorough' % pid,
            'evidence_file': 'evidence/%s.json' % pid,
            'replay_cmd_template': './check %s --replay {path}' % pid,
            'engine': 'tlc',
            'level_claimed': {'category': cat, 'text': text, 'design_ref': ref},
            'level_note': note,
            'technique': tech,
        })
    na = []
    for pid in ALL:
        if pid in CHECKS:
            continue
        na.append({'property_id': pid, 'reason': NOT_APPLICABLE.get(pid, PENDING_REASON)})
    m = {
        'version': 1,
        'setup_cmd': './check --setup',
        'hooks': {
            'guard': common.GUARD,
            'enable': 'checks export RECOGNIZERS_TEXT_VERIF=1; /repo is used in place through PYTHONPATH (pure Python, no build step)',
            'baseline_off_cmd': BASELINE_OFF,
            'source_commits': [],
            'add_only': True,
        },
        'engines': [
            {'name': 'tlc', 'path': 'spec/ + harness/', 'serves_properties': sorted(CHECKS),
             'kind_free_text': 'explicit TLA+ specification (spec/base, spec/mech, spec/contract); TLC exhaustive configs (spec/mc), '
                               'generator configs replayed into the code (spec->code) and Trace_* modules validating recorded '
                               'observations (code->spec)'},
        ],
        'checks': checks,
        'not_applicable': na,
        'notes': 'Fixes and known findings: known_findings.jsonl. Seeded changes used to test the checks: seeded/. '
                 'Shims for PyPI modules absent from the sandbox: shims/.',
    }
    with open(os.path.join(common.VERIF, 'MANIFEST.json'), 'w') as f:
        json.dump(m, f, indent=1)
    return m


if __name__ == '__main__':
    m = build()
    try:
        import jsonschema
        jsonschema.validate(m, json.load(open('/root/.vp/MANIFEST.schema.json')))
        for c in m['checks']:
            p = os.path.join(common.VERIF, c['evidence_file'])
            if os.path.exists(p):
                jsonschema.validate(json.load(open(p)), json.load(open('/root/.vp/EVIDENCE.schema.json')))
        print('MANIFEST.json valid; %d checks, %d not_applicable' % (len(m['checks']), len(m['not_applicable'])))
    except ImportError:
        print('MANIFEST.json written (jsonschema not importable here)')
