------------------------------- MODULE Choice -------------------------------
(* C20 contract: yes/no answers keep their polarity (English boolean model).
   Word lists are written here from the culture's grammar; offsets are in code points, so
   every expression carries its code-point length (emoji are one code point, TLC strings are
   UTF-16). *)
EXTENDS Integers, Sequences, FiniteSets, TLC, RTStrings, BigNat

TrueWords == {"true", "yes", "yep", "yup", "yeah", "y", "sure", "ok", "agree"}
FalseWords == {"false", "nope", "nop", "no", "not ok", "disagree"}
TrueEmoji == {"👍", "👌"}
FalseEmoji == {"👎", "✋", "🖐"}
SkinTones == {"🏻", "🏽"}

Lower == "abcdefghijklmnopqrstuvwxyz"
Upper == "ABCDEFGHIJKLMNOPQRSTUVWXYZ"
Up(c) == LET k == IndexOf(Lower, c) IN IF k = 0 THEN c ELSE Ch(Upper, k)
RECURSIVE MapChars(_, _, _)
(* mode: "upper" all; "title" first letter of each word; "alt" every second character *)
MapChars(s, i, mode) ==
  IF i > Len(s) THEN ""
  ELSE LET c == Ch(s, i)
           up == CASE mode = "upper" -> TRUE
                   [] mode = "title" -> (i = 1 \/ Ch(s, i - 1) = " ")
                   [] mode = "alt" -> (i % 2 = 0)
                   [] OTHER -> FALSE
       IN (IF up THEN Up(c) ELSE c) \o MapChars(s, i + 1, mode)
Variant(w, mode) == IF mode = "lower" THEN w ELSE MapChars(w, 1, mode)
CaseModes == {"lower", "upper", "title", "alt"}

(* expressions: [base (the listed alternative), text (as written), cplen, value] *)
WordExprs == { [base |-> w, text |-> Variant(w, m), cplen |-> Len(w), value |-> "true"] : w \in TrueWords, m \in CaseModes }
             \cup { [base |-> w, text |-> Variant(w, m), cplen |-> Len(w), value |-> "false"] : w \in FalseWords, m \in CaseModes }
EmojiExprs == { [base |-> e, text |-> e, cplen |-> 1, value |-> "true"] : e \in TrueEmoji }
              \cup { [base |-> e, text |-> e, cplen |-> 1, value |-> "false"] : e \in FalseEmoji }
              \cup { [base |-> e \o "+skintone", text |-> e \o t, cplen |-> 2, value |-> "true"] : e \in TrueEmoji, t \in SkinTones }
              \cup { [base |-> e \o "+skintone", text |-> e \o t, cplen |-> 2, value |-> "false"] : e \in FalseEmoji, t \in SkinTones }
Exprs == WordExprs \cup EmojiExprs

CONSTANTS Prefixes, Suffixes, NeutralTokens, MaxNeutral, Separators

SingleCases ==
  { [kind |-> "single", text |-> p \o x.text \o s, expr |-> x.base,
     spans |-> {[s |-> Len(p), e |-> Len(p) + x.cplen - 1, value |-> x.value]}] : x \in Exprs, p \in Prefixes, s \in Suffixes }

(* both polarities: exactly one entity, which is one of the two expressions with its polarity *)
LowerExprs == { x \in Exprs : x.text = x.base \/ x.cplen = 1 }
MixedCases ==
  { [kind |-> "mixed", text |-> a.text \o sep \o b.text, expr |-> a.base \o "|" \o b.base,
     spans |-> {[s |-> 0, e |-> a.cplen - 1, value |-> a.value],
                [s |-> a.cplen + Len(sep), e |-> a.cplen + Len(sep) + b.cplen - 1, value |-> b.value]}]
    : a \in LowerExprs, b \in LowerExprs, sep \in Separators } 
MixedOK(c) == \E x, y \in c.spans : x.value # y.value

RECURSIVE NeutralSeqs(_)
NeutralSeqs(n) == IF n = 0 THEN {""}
                  ELSE LET R == NeutralSeqs(n - 1) IN R \cup { (IF r = "" THEN t ELSE r \o " " \o t) : r \in R, t \in NeutralTokens }
NeutralCases == { [kind |-> "neutral", text |-> t, expr |-> "", spans |-> {}] : t \in NeutralSeqs(MaxNeutral) \cup {"   ", " ", "\t"} }

Cases == SingleCases \cup { c \in MixedCases : MixedOK(c) } \cup NeutralCases

(* ------------------------------------------------------------------ verdict *)
(* obs.ents: sequence of [s, e, text, type, res]; res.value "True"/"False", res.score decimal *)
ScoreOK(sc) == IsDecimal(sc) /\ LET n == DecNorm(sc) IN n[1] = "0" \/ (n[1] = "1" /\ n[2] = "")
PolarityOf(v) == IF v \in {"True", "true"} THEN "true" ELSE IF v \in {"False", "false"} THEN "false" ELSE "?"

Verdict(c, obs) ==
  LET es == obs.ents IN
  IF c.kind = "neutral" THEN (IF Len(es) = 0 THEN "ok" ELSE "Neutral: text without any listed expression yields an entity")
  ELSE IF Len(es) = 0 THEN "Recognised: a listed expression yields no entity"
  ELSE IF Len(es) # 1 THEN "ExactlyOne: more than one entity"
  ELSE LET e == es[1] IN
       IF e.type # "boolean" THEN "Type: entity is not a boolean"
       ELSE IF ~Has(e.res, "value") \/ ~Has(e.res, "score") THEN "Resolution: value or score missing"
       ELSE IF ~\E sp \in c.spans : sp.s = e.s /\ sp.e = e.e THEN "Span: the entity does not span a listed expression"
       ELSE IF ~\E sp \in c.spans : sp.s = e.s /\ sp.e = e.e /\ sp.value = PolarityOf(e.res.value) THEN "Polarity: the value is not the polarity of the expression"
       ELSE IF ~ScoreOK(e.res.score) THEN "Score: outside [0, 1]"
       ELSE "ok"
=============================================================================
