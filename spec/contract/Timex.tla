------------------------------- MODULE Timex -------------------------------
(* C14 contract: the TIMEX grammar as a generator of (text, denoted fields, canonical?) cases
   and the relation an observation of the datatype must satisfy.  Nothing here refers to the
   implementation's internals. *)
EXTENDS Integers, Sequences, FiniteSets, TLC, RTStrings, Calendar

CONSTANTS Years, Days, Hours, MinSecs, Weeks, Amounts, ComboYears

Seasons == {"SP", "SU", "FA", "WI"}
PartsOfDay == {"DT", "NI", "MO", "AF", "EV"}
DateUnits == {"Y", "M", "W", "D"}
TimeUnits == {"H", "M", "S"}

F1(k, v) == k :> v
DateDen(y, m, d) == ("year" :> ToString(y)) @@ ("month" :> ToString(m)) @@ ("day_of_month" :> ToString(d))
OpenDateDen(m, d) == ("month" :> ToString(m)) @@ ("day_of_month" :> ToString(d))
TimeDen(h, mi, s) == ("hour" :> ToString(h)) @@ ("minute" :> ToString(mi)) @@ ("second" :> ToString(s))

(* canonical text of a clock time: the shortest of Thh, Thh:mm, Thh:mm:ss *)
CanonTime(h, mi, s) ==
  IF mi = 0 /\ s = 0 THEN "T" \o Pad2(h)
  ELSE IF s = 0 THEN "T" \o Pad2(h) \o ":" \o Pad2(mi)
  ELSE "T" \o Pad2(h) \o ":" \o Pad2(mi) \o ":" \o Pad2(s)

TimeForms(h, mi, s) ==
  {"T" \o Pad2(h) \o ":" \o Pad2(mi) \o ":" \o Pad2(s)}
  \cup (IF s = 0 THEN {"T" \o Pad2(h) \o ":" \o Pad2(mi)} ELSE {})
  \cup (IF s = 0 /\ mi = 0 THEN {"T" \o Pad2(h)} ELSE {})

Case(kind, text, den, canon) == [kind |-> kind, text |-> text, den |-> den, canon |-> canon]

TimeTriples == Hours \X MinSecs \X MinSecs
ValidYMD(ys) == {t \in ys \X (1..12) \X Days : t[3] <= DaysInMonth(t[1], t[2])}
ValidMD == {t \in (1..12) \X Days : t[2] <= DaysInMonth(2000, t[1])}

TimeCases ==
  UNION { { Case("time", tx, TimeDen(t[1], t[2], t[3]), tx = CanonTime(t[1], t[2], t[3]))
            : tx \in TimeForms(t[1], t[2], t[3]) } : t \in TimeTriples }

DateCases == { Case("date", DateStr(t[1], t[2], t[3]), DateDen(t[1], t[2], t[3]), TRUE) : t \in ValidYMD(Years) }
OpenDateCases == { Case("opendate", "XXXX-" \o Pad2(t[1]) \o "-" \o Pad2(t[2]), OpenDateDen(t[1], t[2]), TRUE) : t \in ValidMD }
WeekdayCases == { Case("weekday", "XXXX-WXX-" \o ToString(w), F1("day_of_week", ToString(w)), TRUE) : w \in 1..7 }
YearCases == { Case("year", Pad4(y), F1("year", ToString(y)), TRUE) : y \in Years }
YearMonthCases == { Case("yearmonth", Pad4(t[1]) \o "-" \o Pad2(t[2]),
                         ("year" :> ToString(t[1])) @@ ("month" :> ToString(t[2])), TRUE) : t \in Years \X (1..12) }
MonthCases == { Case("month", "XXXX-" \o Pad2(m), F1("month", ToString(m)), TRUE) : m \in 1..12 }
SeasonCases == { Case("season", s, F1("season", s), TRUE) : s \in Seasons }
YearSeasonCases == { Case("yearseason", Pad4(t[1]) \o "-" \o t[2], ("year" :> ToString(t[1])) @@ ("season" :> t[2]), TRUE)
                     : t \in Years \X Seasons }
WeekCases == { Case("isoweek", Pad4(t[1]) \o "-W" \o Pad2(t[2]),
                    ("year" :> ToString(t[1])) @@ ("week_of_year" :> ToString(t[2])), TRUE) : t \in Years \X Weeks }
WeekendCases == { Case("weekend", Pad4(t[1]) \o "-W" \o Pad2(t[2]) \o "-WE",
                       ("year" :> ToString(t[1])) @@ ("week_of_year" :> ToString(t[2])) @@ ("weekend" :> "true"), TRUE)
                  : t \in Years \X Weeks }
WeekOfMonthCases == { Case("weekofmonth", "XXXX-" \o Pad2(t[1]) \o "-W" \o Pad2(t[2]),
                           ("month" :> ToString(t[1])) @@ ("week_of_month" :> ToString(t[2])), TRUE)
                      : t \in (1..12) \X (1..5) }
WeekOfMonthDayCases == { Case("weekofmonthday", "XXXX-" \o Pad2(t[1]) \o "-WXX-" \o ToString(t[2]) \o "-" \o ToString(t[3]),
                              ("month" :> ToString(t[1])) @@ ("week_of_month" :> ToString(t[2])) @@ ("day_of_week" :> ToString(t[3])), TRUE)
                         : t \in (1..12) \X (1..5) \X (1..7) }
PartOfDayCases == { Case("partofday", "T" \o p, F1("part_of_day", p), TRUE) : p \in PartsOfDay }
NowCases == { Case("now", "PRESENT_REF", F1("now", "true"), TRUE) }

(* amounts are given as written; Decimal's str() strips redundant leading zeros and supplies a
   missing integer part, and keeps trailing zeros of the fraction *)
AmountDen(a) ==
  LET dot == IndexOf(a, ".") IN
  IF dot = 0 THEN StripLeadingZeros(a)
  ELSE (IF dot = 1 THEN "0" ELSE StripLeadingZeros(SubSeq(a, 1, dot - 1))) \o SubSeq(a, dot, Len(a))
DurKey(u, isTime) ==
  IF isTime THEN (CASE u = "H" -> "hours" [] u = "M" -> "minutes" [] u = "S" -> "seconds")
  ELSE (CASE u = "Y" -> "years" [] u = "M" -> "months" [] u = "W" -> "weeks" [] u = "D" -> "days")
DurationCases ==
  { Case("duration", "P" \o t[1] \o t[2], F1(DurKey(t[2], FALSE), AmountDen(t[1])), t[1] = AmountDen(t[1])) : t \in Amounts \X DateUnits }
  \cup { Case("duration", "PT" \o t[1] \o t[2], F1(DurKey(t[2], TRUE), AmountDen(t[1])), t[1] = AmountDen(t[1])) : t \in Amounts \X TimeUnits }

(* date + time and date + part-of-day combinations *)
ComboDates ==
  { [text |-> DateStr(t[1], t[2], t[3]), den |-> DateDen(t[1], t[2], t[3])] : t \in ValidYMD(ComboYears) }
  \cup { [text |-> "XXXX-" \o Pad2(t[1]) \o "-" \o Pad2(t[2]), den |-> OpenDateDen(t[1], t[2])] : t \in {u \in ValidMD : u[2] \in {1, 29, 31}} }
  \cup { [text |-> "XXXX-WXX-" \o ToString(w), den |-> F1("day_of_week", ToString(w))] : w \in 1..7 }
DateTimeCases ==
  UNION { UNION { { Case("datetime", dc.text \o tx, dc.den @@ TimeDen(t[1], t[2], t[3]), tx = CanonTime(t[1], t[2], t[3]))
                    : tx \in TimeForms(t[1], t[2], t[3]) } : t \in TimeTriples } : dc \in ComboDates }
DatePartCases == { Case("datepart", t[1].text \o "T" \o t[2], t[1].den @@ F1("part_of_day", t[2]), TRUE) : t \in ComboDates \X PartsOfDay }

Cases == TimeCases \cup DateCases \cup OpenDateCases \cup WeekdayCases \cup YearCases \cup YearMonthCases
         \cup MonthCases \cup SeasonCases \cup YearSeasonCases \cup WeekCases \cup WeekendCases
         \cup WeekOfMonthCases \cup WeekOfMonthDayCases \cup PartOfDayCases \cup NowCases
         \cup DurationCases \cup DateTimeCases \cup DatePartCases

(* ------------------------------------------------------------------ the contract *)
(* obs = [fields1, fmt1, fields2, fmt2]: fields of Timex(s); its timex_value(); fields of
   Timex(fmt1); and that one's timex_value(). Returns "ok" or the first failing clause. *)
Verdict(c, obs) ==
  IF ~SameRec(obs.fields2, obs.fields1) THEN "RoundTrip: Timex(format(Timex(s))) has other field values than Timex(s)"
  ELSE IF obs.fmt2 # obs.fmt1 THEN "Idempotent: formatting twice differs from formatting once"
  ELSE IF c.canon /\ obs.fmt1 # c.text THEN "CanonicalFixed: a canonical string does not come back identical"
  ELSE "ok"

(* advisory: the fields the grammar says the string denotes *)
DenotationOK(c, obs) == SameRec(obs.fields1, c.den)

(* from_date / from_date_time / from_time oracle *)
FromExpect(kind, y, mo, d, h, mi, s) ==
  CASE kind = "date" -> DateStr(y, mo, d)
    [] kind = "datetime" -> DateStr(y, mo, d) \o CanonTime(h, mi, s)
    [] kind = "time" -> CanonTime(h, mi, s)
VerdictFrom(c, obs) ==
  IF obs.fmt1 # FromExpect(c.kind, c.y, c.mo, c.d, c.h, c.mi, c.sec)
  THEN "FromValue: not the canonical TIMEX of the given value" ELSE "ok"
=============================================================================
