------------------------------ MODULE SpecsAgree ------------------------------
(* C19 contract: the agreement relation between a Specs case and what the Python model returns.
   exp / act: sequences of entities [text, type, res, (s), (e)]; text already lower-cased on both
   sides (the repository's runner compares case-insensitively); res a record of strings, for
   date-time with res.values a sequence of records. *)
EXTENDS Integers, Sequences, FiniteSets, TLC, RTStrings

ValueKeys == {"timex", "type", "value", "start", "end", "Mod"}
SeqSet(s) == { s[k] : k \in 1..Len(s) }

(* every listed property of an actual value appears among the expected values (as the runner's assert_prop) *)
ValuesAgree(ev, av) ==
  /\ Len(ev) = Len(av)
  /\ \A k \in 1..Len(av) : \A key \in ValueKeys :
        LET want == { Get(ev[j], key, "<absent>") : j \in 1..Len(ev) } IN Get(av[k], key, "<absent>") \in want

(* keys: the resolution fields compared for this model family (those the repository's own runner compares:
   number / choice: value; units: value, unit, isoCurrency; sequence: value, score) *)
ResAgree(er, ar, keys) ==
  IF Has(er, "values") THEN Has(ar, "values") /\ ValuesAgree(er.values, ar.values)
  ELSE \A key \in (DOMAIN er) \cap keys : Has(ar, key) /\ ar[key] = er[key]

EntityClause(e, a, keys) ==
  IF e.text # a.text THEN "Text"
  ELSE IF e.type # a.type THEN "Type"
  ELSE IF Has(e, "s") /\ e.s # a.s THEN "Start"
  ELSE IF Has(e, "e") /\ e.e # a.e THEN "End"
  ELSE IF Has(a.res, "nores") /\ DOMAIN e.res # {} THEN "Resolution"
  ELSE IF ~Has(a.res, "nores") /\ ~ResAgree(e.res, a.res, keys) THEN "Resolution"
  ELSE "ok"

Verdict(c, obs) ==
  LET exp == c.exp act == obs.ents keys == SeqSet(c.keys) IN
  IF Len(exp) # Len(act) THEN "Count: the model returns " \o ToString(Len(act)) \o " entities, the spec lists " \o ToString(Len(exp))
  ELSE LET badk == { k \in 1..Len(exp) : EntityClause(exp[k], act[k], keys) # "ok" } IN
       IF badk = {} THEN "ok"
       ELSE LET k == CHOOSE x \in badk : \A j \in badk : x <= j IN EntityClause(exp[k], act[k], keys) \o ": entity " \o ToString(k) \o " differs from the spec"
=============================================================================
