---------------------------- MODULE TimexResolve ----------------------------
(* C15 contract: what TimexResolver.resolve and TimexRangeResolver.evaluate must return,
   stated on calendar day ordinals; generators of the scenarios; verdict operators. *)
EXTENDS Integers, Sequences, FiniteSets, TLC, RTStrings, Calendar, BigNat

CONSTANTS RefDays,        \* reference day ordinals for resolve
          DurAmounts,     \* amounts as written
          RangeYears,     \* years for year / year-month TIMEXes
          DateRanges,     \* set of <<start ordinal, end ordinal>>
          TimeRanges,     \* set of <<start hour, end hour>>
          MonthDays,      \* set of <<month, day>>
          Times,          \* set of <<hour, minute, second>>
          MaxCands, MaxDateC, MaxTimeC

UnitSeconds(u, isTime) ==
  IF isTime THEN (CASE u = "H" -> 3600 [] u = "M" -> 60 [] u = "S" -> 1)
  ELSE (CASE u = "Y" -> 31536000 [] u = "M" -> 2592000 [] u = "W" -> 604800 [] u = "D" -> 86400)

(* ------------------------------------------------------------------ resolve *)
LastBefore(w, r) == CHOOSE x \in (r - 7)..(r - 1) : IsoWeekday(x) = w
NextAfter(w, r) == CHOOSE x \in (r + 1)..(r + 7) : IsoWeekday(x) = w
FirstOfNextMonth(y, m) == LET n == ShiftMonth(y, m, 1) IN DateStr(n[1], n[2], 1)

ResolveCases ==
  { [k |-> "weekday", timex |-> "XXXX-WXX-" \o ToString(t[1]), w |-> t[1], ref |-> t[2], rt |-> t[3]] : t \in (1..7) \X RefDays \X {0, 1} }   \* rt: time of day of the reference (midnight / 15:30)
  \cup { [k |-> "duration", timex |-> "P" \o t[1] \o t[2], amount |-> t[1], secs |-> UnitSeconds(t[2], FALSE)] : t \in DurAmounts \X {"Y", "M", "W", "D"} }
  \cup { [k |-> "duration", timex |-> "PT" \o t[1] \o t[2], amount |-> t[1], secs |-> UnitSeconds(t[2], TRUE)] : t \in DurAmounts \X {"H", "M", "S"} }
  \cup { [k |-> "year", timex |-> Pad4(y), y |-> y] : y \in RangeYears }
  \cup { [k |-> "yearmonth", timex |-> Pad4(t[1]) \o "-" \o Pad2(t[2]), y |-> t[1], m |-> t[2]] : t \in RangeYears \X (1..12) }
  \cup { [k |-> "month", timex |-> "XXXX-" \o Pad2(t[1]), m |-> t[1], ref |-> t[2]] : t \in (1..12) \X {r \in RefDays : r % 5 = 0} }

RefOf(c) == IF Has(c, "ref") THEN c.ref ELSE 737000
RefStr(c) == OrdStr(RefOf(c)) \o (IF Has(c, "rt") /\ c.rt = 1 THEN "T15:30:00" ELSE "T00:00:00")

ValueNum(v) == IF Has(v, "value") /\ IsDecimal(v.value) THEN DecNorm(v.value) ELSE <<"?", "?">>

(* obs.values: sequence of records with string fields timex, type, value | start, end *)
VerdictResolve(c, obs) ==
  LET vs == obs.values IN
  IF c.k = "weekday" THEN
      IF Len(vs) # 2 THEN "Weekday: expected exactly two values"
      ELSE IF \E i \in 1..2 : ~(Has(vs[i], "value") /\ DateStrValid(vs[i].value)) THEN "WellFormed: value is not a valid date"
      ELSE IF vs[1].value # OrdStr(LastBefore(c.w, c.ref)) THEN "Weekday: first value is not that weekday immediately before the reference"
      ELSE IF vs[2].value # OrdStr(NextAfter(c.w, c.ref)) THEN "Weekday: second value is not that weekday immediately after the reference"
      ELSE IF \E i \in 1..2 : Get(vs[i], "type", "") # "date" \/ Get(vs[i], "timex", "") # c.timex THEN "WellFormed: type/timex of the value"
      ELSE "ok"
  ELSE IF c.k = "duration" THEN
      IF Len(vs) # 1 THEN "Duration: expected exactly one value"
      ELSE IF ValueNum(vs[1]) # DecMul(c.amount, c.secs) THEN "Duration: value is not the length in seconds"
      ELSE IF Get(vs[1], "type", "") # "duration" THEN "WellFormed: type of the value"
      ELSE "ok"
  ELSE IF c.k = "year" THEN
      IF Len(vs) # 1 THEN "Year: expected exactly one value"
      ELSE IF Get(vs[1], "start", "") # DateStr(c.y, 1, 1) \/ Get(vs[1], "end", "") # DateStr(c.y + 1, 1, 1) THEN "Year: not [first day, first day of next year)"
      ELSE IF Get(vs[1], "type", "") # "daterange" THEN "WellFormed: type of the value"
      ELSE "ok"
  ELSE IF c.k = "yearmonth" THEN
      IF Len(vs) # 1 THEN "Month: expected exactly one value"
      ELSE IF ~(DateStrValid(Get(vs[1], "start", "")) /\ DateStrValid(Get(vs[1], "end", ""))) THEN "WellFormed: start/end is not a valid date"
      ELSE IF vs[1].start # DateStr(c.y, c.m, 1) \/ vs[1].end # FirstOfNextMonth(c.y, c.m) THEN "Month: not [first day, first day of next month)"
      ELSE IF Get(vs[1], "type", "") # "daterange" THEN "WellFormed: type of the value"
      ELSE "ok"
  ELSE IF c.k = "month" THEN
      IF Len(vs) = 0 THEN "Month: no value"
      ELSE IF \E i \in 1..Len(vs) : ~(DateStrValid(Get(vs[i], "start", "")) /\ DateStrValid(Get(vs[i], "end", ""))) THEN "WellFormed: start/end is not a valid date"
      ELSE IF \E i \in 1..Len(vs) :
                LET y == ToNat(SubSeq(vs[i].start, 1, 4)) IN
                vs[i].start # DateStr(y, c.m, 1) \/ vs[i].end # FirstOfNextMonth(y, c.m) THEN "Month: not [first day, first day of next month)"
      ELSE "ok"
  ELSE "ok"

(* ------------------------------------------------------------------ evaluate *)
(* shortest TIMEX text of a time of day <<hour, minute, second>> *)
TimeText(t) == "T" \o Pad2(t[1]) \o (IF t[2] = 0 /\ t[3] = 0 THEN "" ELSE ":" \o Pad2(t[2])) \o (IF t[3] = 0 THEN "" ELSE ":" \o Pad2(t[3]))
Cands ==
  { [k |-> "wd", text |-> "XXXX-WXX-" \o ToString(w), w |-> w] : w \in 1..7 }
  \cup { [k |-> "md", text |-> "XXXX-" \o Pad2(t[1]) \o "-" \o Pad2(t[2]), m |-> t[1], d |-> t[2]] : t \in MonthDays }
  \cup { [k |-> "t", text |-> TimeText(t), secs |-> t[1] * 3600 + t[2] * 60 + t[3]] : t \in Times }
  \cup { [k |-> "wdt", text |-> "XXXX-WXX-" \o ToString(t[1]) \o TimeText(t[2]), w |-> t[1], secs |-> t[2][1] * 3600 + t[2][2] * 60 + t[2][3]] : t \in {3, 7} \X {x \in Times : x[2] = 0} }
  \cup { [k |-> "dur", text |-> "P2D"], [k |-> "dur", text |-> "PT3H"] }

(* the duration of a range constraint in its most natural unit: whole years, whole months (same day of the month), whole
   weeks, else days; the resolver derives the end of the range from start + duration, so every unit is a path of its own *)
RangeDur(r) == LET a == FromOrdinal(r[1]) b == FromOrdinal(r[2]) mon == (b[1] * 12 + b[2]) - (a[1] * 12 + a[2]) IN
               IF a[3] = b[3] /\ mon > 0 THEN (IF mon % 12 = 0 THEN ToString(mon \div 12) \o "Y" ELSE ToString(mon) \o "M")
               ELSE IF (r[2] - r[1]) % 7 = 0 THEN ToString((r[2] - r[1]) \div 7) \o "W"
               ELSE ToString(r[2] - r[1]) \o "D"
DateRangeText(r) == "(" \o OrdStr(r[1]) \o "," \o OrdStr(r[2]) \o ",P" \o RangeDur(r) \o ")"
TimeRangeText(r) == "(T" \o Pad2(r[1]) \o ",T" \o Pad2(r[2]) \o ",PT" \o ToString(r[2] - r[1]) \o "H)"

SubsetsUpTo(S, lo, hi) == { X \in SUBSET S : Cardinality(X) >= lo /\ Cardinality(X) <= hi }

EvalCases ==
  { [k |-> "eval", cands |-> t[1], dr |-> t[2], tr |-> t[3]] :
      t \in SubsetsUpTo(Cands, 1, MaxCands) \X SubsetsUpTo(DateRanges, 1, MaxDateC) \X SubsetsUpTo(TimeRanges, 0, MaxTimeC) }
  \cup { [k |-> "eval", cands |-> t[1], dr |-> {}, tr |-> t[2]] :
      t \in SubsetsUpTo({c \in Cands : c.k = "t"}, 1, MaxCands) \X SubsetsUpTo(TimeRanges, 1, MaxTimeC) }

(* ordered constraint lists: the collapse of overlapping ranges depends on the order in which the
   constraints are supplied, so every permutation of every 2- and 3-subset is a scenario *)
Perms(S) == { f \in [1..Cardinality(S) -> S] : \A a, b \in 1..Cardinality(S) : f[a] = f[b] => a = b }
EvalOrderCases ==
  UNION { { [k |-> "eval", cands |-> {cd}, dr |-> X, tr |-> {}, order |-> [n \in 1..Cardinality(X) |-> DateRangeText(f[n])]] :
              cd \in {x \in Cands : x.k = "wd" /\ x.w \in {1, 3}}, f \in Perms(X) }
          : X \in SubsetsUpTo(DateRanges, 2, 3) }
ValidOrderCase(c) == \A n \in 1..Len(c.order) : \E r \in c.dr : DateRangeText(r) = c.order[n]

(* a returned TIMEX read back as <<day ordinal | 0 if none | -1 if not definite, seconds | -1 if none>> *)
TimeTextSecs(s) ==
  IF MatchPat("Tdd", s) THEN ToNat(SubSeq(s, 2, 3)) * 3600
  ELSE IF MatchPat("Tdd:dd", s) THEN ToNat(SubSeq(s, 2, 3)) * 3600 + ToNat(SubSeq(s, 5, 6)) * 60
  ELSE IF MatchPat("Tdd:dd:dd", s) THEN ToNat(SubSeq(s, 2, 3)) * 3600 + ToNat(SubSeq(s, 5, 6)) * 60 + ToNat(SubSeq(s, 8, 9))
  ELSE -1
ReadResult(s) ==
  IF DateStrValid(s) THEN <<DateStrOrd(s), -1>>
  ELSE IF Len(s) > 10 /\ DateStrValid(SubSeq(s, 1, 10)) /\ TimeTextSecs(SubSeq(s, 11, Len(s))) >= 0
    THEN <<DateStrOrd(SubSeq(s, 1, 10)), TimeTextSecs(SubSeq(s, 11, Len(s)))>>
  ELSE IF TimeTextSecs(s) >= 0 /\ TimeTextSecs(s) < 86400 THEN <<0, TimeTextSecs(s)>>
  ELSE <<-1, -1>>

Instance(r, c) ==
  LET civ == FromOrdinal(r[1]) IN
  CASE c.k = "wd" -> r[1] > 0 /\ IsoWeekday(r[1]) = c.w
    [] c.k = "md" -> r[1] > 0 /\ civ[2] = c.m /\ civ[3] = c.d
    [] c.k = "t" -> r[1] = 0 /\ r[2] = c.secs
    [] c.k = "wdt" -> r[1] > 0 /\ IsoWeekday(r[1]) = c.w /\ r[2] = c.secs
    [] c.k = "dur" -> FALSE

SeqToSet(s) == { s[i] : i \in 1..Len(s) }

VerdictEval(c, obs) ==
  LET out == obs.timexes
      rs == [i \in 1..Len(out) |-> ReadResult(out[i])]
  IN
  IF \E i \in 1..Len(out) : rs[i][1] = -1 THEN "Definite: a returned TIMEX is not a definite date, time or datetime"
  ELSE IF \E i \in 1..Len(out) : ~\E cd \in c.cands : Instance(rs[i], cd) THEN "Instance: a returned TIMEX is not an instance of any candidate"
  ELSE IF c.dr # {} /\ \E i \in 1..Len(out) : ~\E d \in c.dr : rs[i][1] >= d[1] /\ rs[i][1] < d[2] THEN "InsideDate: a returned TIMEX lies in no supplied date range"
  ELSE IF c.tr # {} /\ \E i \in 1..Len(out) : ~\E t \in c.tr : rs[i][2] >= t[1] * 3600 /\ rs[i][2] < t[2] * 3600 THEN "InsideTime: a returned TIMEX lies in no supplied time range"
  ELSE IF /\ Cardinality(c.cands) = 1 /\ Cardinality(c.dr) = 1 /\ c.tr = {}
          /\ (CHOOSE cd \in c.cands : TRUE).k = "wd"
          /\ LET cd == CHOOSE x \in c.cands : TRUE
                 d == CHOOSE x \in c.dr : TRUE
                 want == { OrdStr(n) : n \in { x \in d[1]..(d[2] - 1) : IsoWeekday(x) = cd.w } }
             IN ~(SeqToSet(out) = want /\ Len(out) = Cardinality(want))
       THEN "Complete: single date range and weekday candidate must return exactly the matching days"
  ELSE "ok"

(* what the harness passes to the code *)
CandTexts(c) == { cd.text : cd \in c.cands }
ConstraintTexts(c) == { DateRangeText(r) : r \in c.dr } \cup { TimeRangeText(r) : r \in c.tr }
=============================================================================
