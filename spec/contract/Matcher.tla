------------------------------ MODULE Matcher ------------------------------
(* C16 contract: tokenisation and dictionary matching on token boundaries.
   Characters are abstracted to classes:
     "sp" white space, "L" letter, "D" digit, "S" the dollar sign, "C" Chinese/Japanese character,
     "K" Korean character, "P" anything else (punctuation, symbols). *)
EXTENDS Integers, Sequences, FiniteSets, TLC

Classes == {"sp", "L", "D", "S", "C", "K", "P"}

(* closed pool of code points used to concretise class strings, and their classes *)
PoolSp == {32, 9, 12288, 160}
PoolL == {97, 90, 233, 1103, 223}
PoolD == {48, 55, 65301, 1635}
PoolS == {36}
PoolC == {20013, 20803, 12354, 12459}
PoolK == {54620, 4352}
PoolP == {46, 44, 45, 8364, 33, 65284}
ClassOf(cp) == IF cp \in PoolSp THEN "sp" ELSE IF cp \in PoolL THEN "L" ELSE IF cp \in PoolD THEN "D"
               ELSE IF cp \in PoolS THEN "S" ELSE IF cp \in PoolC THEN "C" ELSE IF cp \in PoolK THEN "K"
               ELSE IF cp \in PoolP THEN "P" ELSE "?"

(* ---- which classes join into multi-character tokens, per tokenizer *)
Word(tk, c) == IF tk = "simple" THEN c \in {"L", "D"} ELSE c \in {"L", "D", "S", "K"}
Alpha(c) == c \in {"L", "K"}
(* the number-with-unit tokenizer splits between a digit and a letter or a dollar sign *)
Split(tk, p, c) == /\ tk = "nwu"
                   /\ \/ (Alpha(c) /\ p = "D") \/ (c = "D" /\ Alpha(p))
                      \/ (c = "D" /\ p = "S") \/ (c = "S" /\ p = "D")
Joined(tk, p, c) == Word(tk, p) /\ Word(tk, c) /\ ~Split(tk, p, c)

(* ---- the tokenisation as a function of the class string: <<start (0-based), length>> *)
IsStart(tk, cls, i) == cls[i] # "sp" /\ (i = 1 \/ ~Joined(tk, cls[i - 1], cls[i]))
TokenEnd(tk, cls, s) == CHOOSE e \in s..Len(cls) :
                           /\ \A k \in (s + 1)..e : ~IsStart(tk, cls, k) /\ cls[k] # "sp"
                           /\ (e = Len(cls) \/ cls[e + 1] = "sp" \/ IsStart(tk, cls, e + 1))
Starts(tk, cls) == { i \in 1..Len(cls) : IsStart(tk, cls, i) }
SetToSortedSeq(S) == LET n == Cardinality(S) IN
                     [k \in 1..n |-> CHOOSE x \in S : Cardinality({y \in S : y < x}) = k - 1]
ContractTokens(tk, cls) ==
  LET ss == SetToSortedSeq(Starts(tk, cls)) IN
  [k \in 1..Len(ss) |-> <<ss[k] - 1, TokenEnd(tk, cls, ss[k]) - ss[k] + 1>>]

(* ---- what the statement demands of any tokenisation (grouping is not constrained):
   toks: sequence of records [start, length, cps]; cps: the input as code points *)
Slice(cps, start, len) == SubSeq(cps, start + 1, start + len)
TokensVerdict(cps, toks) ==
  LET n == Len(cps) IN
  IF \E k \in 1..Len(toks) : toks[k].start < 0 \/ toks[k].length < 1 \/ toks[k].start + toks[k].length > n
    THEN "InBounds: a token lies outside the input"
  ELSE IF \E k \in 1..Len(toks) : toks[k].cps # Slice(cps, toks[k].start, toks[k].length)
    THEN "TextIsSlice: a token's text is not the input slice it points at"
  ELSE IF \E k \in 1..(Len(toks) - 1) : toks[k].start + toks[k].length > toks[k + 1].start
    THEN "Ordered: tokens are out of order or overlap"
  ELSE IF \E k \in 1..Len(toks) : \E p \in (toks[k].start + 1)..(toks[k].start + toks[k].length) : ClassOf(cps[p]) = "sp"
    THEN "NoSpace: a token contains white space"
  ELSE IF \E p \in 1..n : ClassOf(cps[p]) # "sp" /\ Cardinality({k \in 1..Len(toks) : toks[k].start < p /\ p <= toks[k].start + toks[k].length}) # 1
    THEN "Coverage: a non-space character is not covered exactly once"
  ELSE "ok"

GroupingAgrees(tk, cps, toks) ==
  LET cls == [i \in 1..Len(cps) |-> ClassOf(cps[i])]
      want == ContractTokens(tk, cls)
  IN Len(want) = Len(toks) /\ \A k \in 1..Len(toks) : <<toks[k].start, toks[k].length>> = want[k]

(* ---- dictionary matching: phrases and query as sequences of token texts.
   dict: sequence of [toks, id]; qt: sequence of token texts *)
SubSeqAt(qt, i, len) == SubSeq(qt, i, i + len - 1)
Occurrences(dict, qt) ==
  { <<i, len>> \in (1..Len(qt)) \X (1..Len(qt)) :
       i + len - 1 <= Len(qt) /\ \E d \in 1..Len(dict) : dict[d].toks = SubSeqAt(qt, i, len) }
IdsAt(dict, qt, i, len) == { dict[d].id : d \in { x \in 1..Len(dict) : dict[x].toks = SubSeqAt(qt, i, len) } }

(* obs.matches: sequence of [start, length, cps, ids (sequence)] in characters; qtoks: the
   query's tokens as the tokenizer reports them [start, length, cps]; dict phrases tokenised by
   the same tokenizer *)
MatchVerdict(cps, qtoks, dict, matches) ==
  LET qt == [k \in 1..Len(qtoks) |-> qtoks[k].cps]
      occ == Occurrences(dict, qt)
      CharSpan(o) == <<qtoks[o[1]].start, qtoks[o[1] + o[2] - 1].start + qtoks[o[1] + o[2] - 1].length - qtoks[o[1]].start>>
      want == { CharSpan(o) : o \in occ }
      got == { <<matches[k].start, matches[k].length>> : k \in 1..Len(matches) }
  IN
  IF \E s \in want : s \notin got THEN "NoMiss: an occurrence of a listed phrase on token boundaries is not reported"
  ELSE IF \E s \in got : s \notin want THEN "NoExtra: a reported match is not an occurrence of a listed phrase on token boundaries"
  ELSE IF Len(matches) # Cardinality(occ) THEN "NoExtra: an occurrence is reported more than once"
  ELSE IF \E k \in 1..Len(matches) : matches[k].cps # Slice(cps, matches[k].start, matches[k].length) THEN "Text: a match's text is not the query slice"
  ELSE IF \E k \in 1..Len(matches) : \E o \in occ :
            CharSpan(o) = <<matches[k].start, matches[k].length>>
            /\ { matches[k].ids[x] : x \in 1..Len(matches[k].ids) } # IdsAt(dict, qt, o[1], o[2])
    THEN "Ids: canonical ids of a match are not those of the phrases that occur there"
  ELSE "ok"
=============================================================================
