------------------------------ MODULE DurRange ------------------------------
(* C10 contract: durations and explicit ranges are arithmetically self-consistent.
   (1) "N <unit>" -> duration P[T]N<U>, value = N x unit length in seconds (digit-string product);
   (2) "from A to B" / "between A and B" with absolute endpoints -> exactly those endpoints;
   (3) whenever a resolved range carries a TIMEX (start,end,duration) with definite endpoints,
       start and end equal the resolved values and end - start equals the duration. *)
EXTENDS DTCommon, BigNat

CONSTANTS DurNs, DatePairs, TimePairs, RefDay

Units == << [w |-> "second", u |-> "S", t |-> TRUE, secs |-> 1], [w |-> "minute", u |-> "M", t |-> TRUE, secs |-> 60],
            [w |-> "hour", u |-> "H", t |-> TRUE, secs |-> 3600], [w |-> "day", u |-> "D", t |-> FALSE, secs |-> 86400],
            [w |-> "week", u |-> "W", t |-> FALSE, secs |-> 604800], [w |-> "month", u |-> "M", t |-> FALSE, secs |-> 2592000],
            [w |-> "year", u |-> "Y", t |-> FALSE, secs |-> 31536000] >>

Base(text, type, vals, fam) ==
  [prop |-> "C10", culture |-> "en-us", ref |-> RefStr(RefDay, 12, 0, 0), text |-> text, s |-> 0, e |-> Len(text) - 1,
   type |-> type, ordered |-> FALSE, vals |-> vals, fam |-> fam]

DurCases ==
  { LET u == Units[k]
        text == ToString(n) \o " " \o u.w \o (IF n = 1 THEN "" ELSE "s")
        timex == (IF u.t THEN "PT" ELSE "P") \o ToString(n) \o u.u
    IN Base(text, "duration", <<V1(timex, "duration", MulStr(ToString(n), u.secs))>>, "duration " \o u.w)
    : n \in DurNs, k \in 1..Len(Units) }

IsoD(n) == OrdStr(n)
UsD(n) == LET c == FromOrdinal(n) IN ToString(c[2]) \o "/" \o ToString(c[3]) \o "/" \o ToString(c[1])
DateRangeCases ==
  UNION { { Base("from " \o IsoD(p[1]) \o " to " \o IsoD(p[2]), "daterange", <<V2("(" \o OrdStr(p[1]) \o "," \o OrdStr(p[2]) \o ",P" \o ToString(p[2] - p[1]) \o "D)", "daterange", OrdStr(p[1]), OrdStr(p[2]))>>, "from-to dates"),
            Base("between " \o UsD(p[1]) \o " and " \o UsD(p[2]), "daterange", <<V2("(" \o OrdStr(p[1]) \o "," \o OrdStr(p[2]) \o ",P" \o ToString(p[2] - p[1]) \o "D)", "daterange", OrdStr(p[1]), OrdStr(p[2]))>>, "between-and dates") }
          : p \in DatePairs }
(* time pairs <<h1, m1, h2, m2>> written unambiguously in 24-hour form (h >= 13 or h = 0) or with am/pm *)
HM(h, m) == Pad2(h) \o ":" \o Pad2(m)
AmPm(h, m) == ToString(IF h % 12 = 0 THEN 12 ELSE h % 12) \o ":" \o Pad2(m) \o (IF h >= 12 THEN " pm" ELSE " am")
TimeRangeCases ==
  UNION { { Base("from " \o AmPm(p[1], p[2]) \o " to " \o AmPm(p[3], p[4]), "timerange", <<V2("*", "timerange", TimeStr(p[1], p[2], 0), TimeStr(p[3], p[4], 0))>>, "from-to times am/pm") }
          \cup (IF p[1] >= 13 /\ p[3] >= 13
                THEN { Base("between " \o HM(p[1], p[2]) \o " and " \o HM(p[3], p[4]), "timerange", <<V2("*", "timerange", TimeStr(p[1], p[2], 0), TimeStr(p[3], p[4], 0))>>, "between-and times 24h") }
                ELSE {})
          : p \in TimePairs }
(* date-time ranges <<day1, h1, m1, day2, h2, m2>> in ISO date + 24-hour form (hours >= 13) *)
CONSTANT DateTimePairs
DateTimeRangeCases ==
  { Base("from " \o OrdStr(p[1]) \o " " \o HM(p[2], p[3]) \o " to " \o OrdStr(p[4]) \o " " \o HM(p[5], p[6]), "datetimerange",
         <<V2("*", "datetimerange", OrdStr(p[1]) \o " " \o TimeStr(p[2], p[3], 0), OrdStr(p[4]) \o " " \o TimeStr(p[5], p[6], 0))>>, "from-to datetimes")
    : p \in DateTimePairs }
Cases == DurCases \cup DateRangeCases \cup TimeRangeCases \cup DateTimeRangeCases

(* ------------------------------------------------------------------ (3) TripleConsistent *)
IsTriple(x) == Len(x) >= 7 /\ Ch(x, 1) = "(" /\ Ch(x, Len(x)) = ")" /\ Len(Split(SubSeq(x, 2, Len(x) - 1), ",")) = 3
TripleParts(x) == Split(SubSeq(x, 2, Len(x) - 1), ",")

(* a definite instant: kind "d" (date), "t" (time), "dt" (datetime); as <<kind, day ordinal, seconds>> *)
TimePartSecs(s) ==
  IF MatchPat("Tdd", s) THEN ToNat(SubSeq(s, 2, 3)) * 3600
  ELSE IF MatchPat("Tdd:dd", s) THEN ToNat(SubSeq(s, 2, 3)) * 3600 + ToNat(SubSeq(s, 5, 6)) * 60
  ELSE IF MatchPat("Tdd:dd:dd", s) THEN ToNat(SubSeq(s, 2, 3)) * 3600 + ToNat(SubSeq(s, 5, 6)) * 60 + ToNat(SubSeq(s, 8, 9))
  ELSE -1
Instant(s) ==
  IF DateStrValid(s) THEN <<"d", DateStrOrd(s), 0>>
  ELSE IF TimePartSecs(s) >= 0 THEN <<"t", 0, TimePartSecs(s)>>
  ELSE IF Len(s) > 10 /\ DateStrValid(SubSeq(s, 1, 10)) /\ TimePartSecs(SubSeq(s, 11, Len(s))) >= 0
       THEN <<"dt", DateStrOrd(SubSeq(s, 1, 10)), TimePartSecs(SubSeq(s, 11, Len(s)))>>
  ELSE <<"?", 0, 0>>

(* duration "P3D", "P2W", "P1M", "P1Y", "PT2H30M", "PT90S": as <<unit class, amount>>; date units
   keep their unit, time durations are summed to seconds; "?" when not of these integer forms *)
RECURSIVE TimeDurSecs(_, _, _)
TimeDurSecs(s, i, acc) ==
  IF i > Len(s) THEN acc
  ELSE LET j == CHOOSE k \in i..(Len(s) + 1) : (k = Len(s) + 1 \/ ~IsDigit(Ch(s, k))) /\ \A q \in i..(k - 1) : IsDigit(Ch(s, q)) IN
       IF j = i \/ j > Len(s) THEN -1
       ELSE LET n == ToNat(SubSeq(s, i, j - 1)) u == Ch(s, j) IN
            IF u = "H" THEN TimeDurSecs(s, j + 1, acc + n * 3600)
            ELSE IF u = "M" THEN TimeDurSecs(s, j + 1, acc + n * 60)
            ELSE IF u = "S" THEN TimeDurSecs(s, j + 1, acc + n)
            ELSE -1
Duration(s) ==
  IF Len(s) >= 3 /\ SubSeq(s, 1, 2) = "PT" THEN (LET v == TimeDurSecs(s, 3, 0) IN IF v >= 0 THEN <<"S", v>> ELSE <<"?", 0>>)
  ELSE IF Len(s) >= 3 /\ Ch(s, 1) = "P" /\ AllDigits(SubSeq(s, 2, Len(s) - 1)) /\ Ch(s, Len(s)) \in {"D", "W", "M", "Y"} /\ Len(s) <= 8
       THEN <<Ch(s, Len(s)), ToNat(SubSeq(s, 2, Len(s) - 1))>>
  ELSE <<"?", 0>>

(* does end - start equal the duration? *)
SpanMatches(a, b, d) ==
  CASE d[1] = "D" -> a[1] # "t" /\ b[2] - a[2] = d[2] /\ b[3] = a[3]
    [] d[1] = "W" -> a[1] # "t" /\ b[2] - a[2] = 7 * d[2] /\ b[3] = a[3]
    [] d[1] = "M" -> a[1] # "t" /\ LET ca == FromOrdinal(a[2]) cb == FromOrdinal(b[2]) IN (cb[1] * 12 + cb[2]) - (ca[1] * 12 + ca[2]) = d[2] /\ cb[3] = ca[3]
    [] d[1] = "Y" -> a[1] # "t" /\ LET ca == FromOrdinal(a[2]) cb == FromOrdinal(b[2]) IN cb[1] - ca[1] = d[2] /\ cb[2] = ca[2] /\ cb[3] = ca[3]
    [] d[1] = "S" -> IF a[1] = "t" THEN ((b[3] - a[3]) + 86400) % 86400 = d[2] % 86400
                     ELSE (b[2] - a[2]) * 86400 + (b[3] - a[3]) = d[2]
    [] OTHER -> TRUE

ValueOfInstant(x) == CASE x[1] = "d" -> OrdStr(x[2])
                       [] x[1] = "t" -> TimeStr(x[3] \div 3600, (x[3] % 3600) \div 60, x[3] % 60)
                       [] x[1] = "dt" -> OrdStr(x[2]) \o " " \o TimeStr(x[3] \div 3600, (x[3] % 3600) \div 60, x[3] % 60)
                       [] OTHER -> "?"

(* v: one resolution value record (strings) *)
TripleVerdict(v) ==
  IF ~(Has(v, "timex") /\ IsTriple(v.timex)) THEN "ok"
  ELSE LET p == TripleParts(v.timex) a == Instant(p[1]) b == Instant(p[2]) d == Duration(p[3]) IN
       IF a[1] = "?" \/ b[1] = "?" \/ a[1] # b[1] THEN "ok"          \* endpoints not definite: nothing promised
       ELSE IF a[1] = "t" /\ (a[3] >= 86400 \/ b[3] > 86400) THEN "ok"
       (* calibration: a modifier (since / until / before / after) may drop one endpoint of the
          resolved value; an absent endpoint is not constrained *)
       ELSE IF Has(v, "start") /\ v.start # ValueOfInstant(a) THEN "TripleStart: resolved start differs from the start of the TIMEX triple"
       ELSE IF Has(v, "end") /\ v.end # ValueOfInstant(b) /\ ~(a[1] = "t" /\ b[3] = 86400) THEN "TripleEnd: resolved end differs from the end of the TIMEX triple"
       ELSE IF d[1] # "?" /\ ~SpanMatches(a, b, d) THEN "TripleDuration: end minus start differs from the duration of the TIMEX triple"
       (* PT1H-1M30S: a borrow that was not carried through; a sign may only stand in front of the whole amount (P-3D, PT-20H) *)
       ELSE IF \E q \in 4..Len(p[3]) : Ch(p[3], q) = "-" THEN "TripleDuration: a component inside the duration of the TIMEX triple is negative"
       ELSE "ok"
=============================================================================
