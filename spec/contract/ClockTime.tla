------------------------------ MODULE ClockTime ------------------------------
(* C07 contract: clock times, alone or attached to a date.
   24-hour HH:MM[:SS] -> that time; 12-hour with am/pm -> (h mod 12) + 12 if pm; an hour 1..12
   without am/pm -> exactly the two readings twelve hours apart; after a date expression
   ("<date> at <time>") -> the datetime composed of that date and that time.
   The TIMEX mirrors the precision written: Thh, Thh:mm or Thh:mm:ss. *)
EXTENDS DTCommon

CONSTANTS Hours24, Minutes, Seconds, Hours12, RefDay

T2(h, m) == "T" \o Pad2(h) \o ":" \o Pad2(m)
T3(h, m, s) == T2(h, m) \o ":" \o Pad2(s)
Readings(h) == IF h \in 1..12 THEN {h % 12, (h % 12) + 12} ELSE {h}
SetToSeq2(S) == LET a == CHOOSE x \in S : \A y \in S : x <= y IN IF Cardinality(S) = 1 THEN <<a>> ELSE <<a, CHOOSE x \in S : x # a>>

TimeCase(form, text, hs, m, s, prec) ==
  LET hseq == SetToSeq2(hs) IN
  [prop |-> "C07", culture |-> "en-us", ref |-> RefStr(RefDay, 12, 0, 0), text |-> text, s |-> 0, e |-> Len(text) - 1,
   type |-> "time", ordered |-> FALSE, form |-> form, hour |-> hseq[1], opt |-> 0,
   vals |-> [k \in 1..Len(hseq) |->
               V1((CASE prec = 1 -> "T" \o Pad2(hseq[k]) [] prec = 2 -> T2(hseq[k], m) [] prec = 3 -> T3(hseq[k], m, s)), "time", TimeStr(hseq[k], m, s))]]

(* 24-hour forms, zero padded *)
F24 == { TimeCase("HH:MM", Pad2(h) \o ":" \o Pad2(m), Readings(h), m, 0, 2) : h \in Hours24, m \in Minutes }
F24s == { TimeCase("HH:MM:SS", Pad2(h) \o ":" \o Pad2(m) \o ":" \o Pad2(s), Readings(h), m, s, 3) : h \in Hours24, m \in Minutes, s \in Seconds }
(* 12-hour forms *)
Mer(pm) == IF pm THEN "pm" ELSE "am"
H12to24(h, pm) == (h % 12) + (IF pm THEN 12 ELSE 0)
F12 == { TimeCase("h:mm am/pm", ToString(h) \o ":" \o Pad2(m) \o " " \o Mer(pm), {H12to24(h, pm)}, m, 0, 2) : h \in Hours12, m \in Minutes, pm \in BOOLEAN }
F12h == { TimeCase("h am/pm", ToString(h) \o " " \o Mer(pm), {H12to24(h, pm)}, 0, 0, 1) : h \in Hours12, pm \in BOOLEAN }
F12n == { TimeCase("h:mm", ToString(h) \o ":" \o Pad2(m), Readings(h), m, 0, 2) : h \in Hours12, m \in Minutes }

(* date-attached: the date expressions of C06 (ISO) and C08 (tomorrow) *)
DateExprs == { [text |-> "2016-11-07", day |-> Ordinal(2016, 11, 7)], [text |-> "tomorrow", day |-> RefDay + 1],
               [text |-> "November 7, 2016", day |-> Ordinal(2016, 11, 7)],
               (* the relative dates of C08, whose value is computed from the reference datetime *)
               [text |-> "next monday", day |-> MondayOf(RefDay) + 7], [text |-> "last friday", day |-> MondayOf(RefDay) - 7 + 4],
               [text |-> "3 days ago", day |-> RefDay - 3], [text |-> "in 2 days", day |-> RefDay + 2], [text |-> "yesterday", day |-> RefDay - 1] }
Attach(tc, de) ==
  LET text == de.text \o " at " \o tc.text IN
  [tc EXCEPT !.text = text, !.e = Len(text) - 1, !.type = "datetime", !.form = "date at " \o tc.form,
             !.vals = [k \in 1..Len(tc.vals) |-> V1(OrdStr(de.day) \o tc.vals[k][1], "datetime", OrdStr(de.day) \o " " \o tc.vals[k][3])]]
Attached == { Attach(tc, de) : tc \in { x \in F24 \cup F12 \cup F12h \cup F12n : x.vals[1][3] \in {"00:30:00", "09:05:00", "12:00:00", "12:30:00", "13:45:00", "23:59:00", "03:30:00", "15:00:00", "00:00:00", "01:00:00"} }, de \in DateExprs }

(* calendar mode (DateTimeOptions 4) filters some expressions on purpose, never a clock time with minutes *)
Calendar == { [c EXCEPT !.opt = 4, !.form = c.form \o " (calendar mode)"] : c \in F24 \cup F12 \cup F12n \cup { a \in Attached : a.hour \in {1, 13} } }
(* split mode (DateTimeOptions 2): "<date> at <time>" comes back as the date and, after it, the time with its readings *)
SplitOne(tc, de) ==
  LET text == de.text \o " at " \o tc.text IN
  [tc EXCEPT !.text = text, !.s = Len(de.text) + 4, !.e = Len(text) - 1, !.opt = 2, !.form = "date at " \o tc.form \o " (split mode)"]
  @@ [lead |-> [s |-> 0, e |-> Len(de.text) - 1, type |-> "date", ordered |-> FALSE, vals |-> <<V1(OrdStr(de.day), "date", OrdStr(de.day))>>]]
SplitMode == { SplitOne(tc, de) : tc \in { x \in F24 \cup F12 \cup F12h \cup F12n : x.vals[1][3] \in {"00:30:00", "03:00:00", "09:05:00", "12:00:00", "15:00:00", "23:59:00", "03:30:00"} },
                               de \in { d \in DateExprs : d.text \in {"2016-11-07", "tomorrow", "next monday"} } }
Cases == F24 \cup F24s \cup F12 \cup F12h \cup F12n \cup Attached \cup Calendar \cup SplitMode
=============================================================================
