------------------------------- MODULE DateAbs -------------------------------
(* C06 contract: a fully specified calendar date in any supported layout is one date entity
   whose TIMEX and value are YYYY-MM-DD, whatever the reference. Layout and month-name tables are
   written here, not read from the code. *)
EXTENDS DTCommon

CONSTANTS Dates,        \* set of <<y, m, d>>
          Refs,         \* set of reference strings "YYYY-MM-DDTHH:MM:SS"
          EnLayouts, OtherCultures, Carriers

(* ---- English layouts *)
EnText(l, y, m, d) ==
  CASE l = 1 -> DateStr(y, m, d)
    [] l = 2 -> ToString(m) \o "/" \o ToString(d) \o "/" \o ToString(y)
    [] l = 3 -> Pad2(m) \o "/" \o Pad2(d) \o "/" \o ToString(y)
    [] l = 4 -> ToString(m) \o "-" \o ToString(d) \o "-" \o ToString(y)
    [] l = 5 -> MonthNameEn[m] \o " " \o ToString(d) \o ", " \o ToString(y)
    [] l = 6 -> MonthNameEn[m] \o " " \o DayOrd(d) \o ", " \o ToString(y)
    [] l = 7 -> ToString(d) \o " " \o MonthNameEn[m] \o " " \o ToString(y)
    [] l = 8 -> DayOrd(d) \o " of " \o MonthNameEn[m] \o " " \o ToString(y)
    [] l = 9 -> MonthAbbrEn[m] \o " " \o ToString(d) \o " " \o ToString(y)
    [] l = 10 -> ToString(y) \o "-" \o ToString(m) \o "-" \o ToString(d)

(* ---- other cultures: month names and the day-month-year layouts *)
(* layouts: 1 ISO; 2 dd/mm/yyyy; 3 dd-mm-yyyy; 4 d <month name> yyyy in the culture's idiom; 5 the same with the
   culture's ordinal mark on the day (1{ba} de mayo de 1999, 1er mai 1999, 2e mai 1999, 1e mei 1999, 1{b0} maggio 1999;
   German writes the ordinal point in layout 4 already); 6 d/m/yyyy and 7 d-m-yyyy without padding *)
OrdDay(cul, d) == CASE cul \in {"es-es", "es-mx", "pt-br"} -> ToString(d) \o "{ba}"
                    [] cul = "fr-fr" -> ToString(d) \o (IF d = 1 THEN "er" ELSE "e")
                    [] cul = "nl-nl" -> ToString(d) \o "e"
                    [] cul = "it-it" -> ToString(d) \o "{b0}"
                    [] OTHER -> ToString(d) \o "."
OtherText(cul, l, y, m, d) ==
  IF cul = "zh-cn" THEN
      (CASE l = 1 -> DateStr(y, m, d)
         [] l = 2 -> ToString(y) \o "/" \o ToString(m) \o "/" \o ToString(d)
         [] l = 3 -> ToString(y) \o "-" \o ToString(m) \o "-" \o ToString(d)
         [] l \in {4, 5} -> ToString(y) \o "{5e74}" \o ToString(m) \o "{6708}" \o ToString(d) \o "{65e5}"
         [] l = 6 -> ToString(y) \o "/" \o Pad2(m) \o "/" \o Pad2(d)
         [] l = 7 -> ToString(y) \o "-" \o Pad2(m) \o "-" \o Pad2(d))
  ELSE
      (CASE l = 1 -> DateStr(y, m, d)
         [] l = 2 -> Pad2(d) \o "/" \o Pad2(m) \o "/" \o ToString(y)
         [] l = 3 -> Pad2(d) \o "-" \o Pad2(m) \o "-" \o ToString(y)
         [] l = 4 -> (CASE cul \in {"es-es", "es-mx", "pt-br"} -> ToString(d) \o " de " \o MonthName(cul)[m] \o " de " \o ToString(y)
                        [] cul = "de-de" -> ToString(d) \o ". " \o MonthName(cul)[m] \o " " \o ToString(y)
                        [] OTHER -> ToString(d) \o " " \o MonthName(cul)[m] \o " " \o ToString(y))
         [] l = 5 -> (CASE cul \in {"es-es", "es-mx", "pt-br"} -> OrdDay(cul, d) \o " de " \o MonthName(cul)[m] \o " de " \o ToString(y)
                        [] OTHER -> OrdDay(cul, d) \o " " \o MonthName(cul)[m] \o " " \o ToString(y))
         [] l = 6 -> ToString(d) \o "/" \o ToString(m) \o "/" \o ToString(y)
         [] l = 7 -> ToString(d) \o "-" \o ToString(m) \o "-" \o ToString(y))

(* carriers: <<text before, text after>> per culture family *)
CarrierPre(cul, k) == IF k = 1 THEN "" ELSE IF cul = "en-us" THEN "I left on " ELSE IF cul = "zh-cn" THEN "{6211}{5728}" ELSE "x "
CarrierPost(cul, k) == IF k = 1 THEN "" ELSE IF cul = "en-us" THEN " ok" ELSE IF cul = "zh-cn" THEN "{8d70}{4e86}" ELSE " ."

(* opt: the DateTimeOptions value of the call (0 = none, 4 = calendar mode) *)
MkCase(cul, lay, expr, ref, k, y, m, d, opt) ==
  [prop |-> "C06", culture |-> cul, layout |-> lay, ref |-> ref, opt |-> opt,
   text |-> CarrierPre(cul, k) \o expr \o CarrierPost(cul, k),
   s |-> CpLen(CarrierPre(cul, k)), e |-> CpLen(CarrierPre(cul, k)) + CpLen(expr) - 1,
   type |-> "date", vals |-> <<V1(DateStr(y, m, d), "date", DateStr(y, m, d))>>, ordered |-> FALSE]

OneRef == { x \in Refs : x = CHOOSE z \in Refs : TRUE }
EnCases == { MkCase("en-us", l, EnText(l, t[1], t[2], t[3]), r, k, t[1], t[2], t[3], 0) : t \in Dates, l \in EnLayouts, r \in Refs, k \in Carriers }
(* calendar mode filters some expressions on purpose, never a fully specified date *)
EnCalendarCases == { MkCase("en-us", l, EnText(l, t[1], t[2], t[3]), r, k, t[1], t[2], t[3], 4) : t \in Dates, l \in EnLayouts, r \in OneRef, k \in {1} }
OtherCases == { MkCase(cul, l, OtherText(cul, l, t[1], t[2], t[3]), r, 1, t[1], t[2], t[3], 0) :
                  t \in Dates, cul \in OtherCultures, l \in 1..7, r \in OneRef }
Cases == EnCases \cup EnCalendarCases \cup OtherCases
=============================================================================
