------------------------------ MODULE Resolution ------------------------------
(* C11 contract: every resolved date-time value is well formed for its type and agrees with its
   TIMEX; the entity's type name equals the type of its values. *)
EXTENDS DurRange

NotResolved == "not resolved"
IsSecondsNumber(s) == IsDecimal(s)

DateOK(s) == s = NotResolved \/ DateStrValid(s)
TimeOK(s) == s = NotResolved \/ TimeStrValid(s) \/ s = "24:00:00"
DateTimeOK(s) == s = NotResolved \/ DateTimeStrValid(s)

(* a range may carry only one endpoint (open range with Mod before/after/since/until) *)
EndpointsOK(v, ok(_)) == /\ (Has(v, "start") \/ Has(v, "end") \/ Get(v, "value", "") = NotResolved)
                         /\ (Has(v, "start") => ok(v.start)) /\ (Has(v, "end") => ok(v.end))

ShapeVerdict(v) ==
  LET ty == Get(v, "type", "") IN
  IF ~Has(v, "timex") THEN "Shape: value without timex"
  ELSE IF ty = "date" THEN (IF Has(v, "value") /\ DateOK(v.value) THEN "ok" ELSE "Shape: a date value is not a valid YYYY-MM-DD")
  ELSE IF ty = "time" THEN (IF Has(v, "value") /\ TimeOK(v.value) THEN "ok" ELSE "Shape: a time value is not a valid HH:MM:SS")
  ELSE IF ty = "datetime" THEN (IF Has(v, "value") /\ DateTimeOK(v.value) THEN "ok" ELSE "Shape: a datetime value is not a valid YYYY-MM-DD HH:MM:SS")
  ELSE IF ty = "duration" THEN (IF Has(v, "value") /\ (IsSecondsNumber(v.value) \/ v.value = NotResolved) THEN "ok" ELSE "Shape: a duration value is not a number of seconds")
  ELSE IF ty = "daterange" THEN
       (IF ~EndpointsOK(v, DateOK) THEN "Shape: a daterange endpoint is not a valid date"
        ELSE IF Has(v, "start") /\ Has(v, "end") /\ DateStrValid(v.start) /\ DateStrValid(v.end) /\ ~(DateStrOrd(v.start) < DateStrOrd(v.end))
             THEN "StartBeforeEnd: a pure date range does not start before it ends"
        ELSE "ok")
  ELSE IF ty = "timerange" THEN (IF EndpointsOK(v, TimeOK) THEN "ok" ELSE "Shape: a timerange endpoint is not a valid time")
  ELSE IF ty = "datetimerange" THEN (IF EndpointsOK(v, DateTimeOK) THEN "ok" ELSE "Shape: a datetimerange endpoint is not a valid datetime")
  ELSE IF ty = "set" THEN "ok"
  ELSE "Shape: unknown value type " \o ty

(* fully definite TIMEX of a point type: the value denotes the same instant *)
DefiniteVerdict(v) ==
  LET ty == Get(v, "type", "") tx == Get(v, "timex", "") x == Instant(tx) IN
  IF ~Has(v, "value") \/ v.value = NotResolved \/ x[1] = "?" THEN "ok"
  ELSE IF ty = "date" /\ x[1] = "d" /\ v.value # ValueOfInstant(x) THEN "DefiniteTimex: date value differs from its definite TIMEX"
  ELSE IF ty = "time" /\ x[1] = "t" /\ x[3] < 86400 /\ v.value # ValueOfInstant(x) THEN "DefiniteTimex: time value differs from its definite TIMEX"
  ELSE IF ty = "datetime" /\ x[1] = "dt" /\ x[3] < 86400 /\ v.value # ValueOfInstant(x) THEN "DefiniteTimex: datetime value differs from its definite TIMEX"
  ELSE "ok"

(* a range whose TIMEX triple has definite endpoints: the resolved endpoints are those of the triple (the duration
   arithmetic of the triple is C10's business) *)
RangeDefiniteVerdict(v) == LET t == TripleVerdict(v) IN IF Len(t) >= 14 /\ SubSeq(t, 1, 14) = "TripleDuration" THEN "ok" ELSE t
(* the library's "no such date" marker (DateObject min value) must never reach a value *)
IsMinDate(s) == Len(s) >= 10 /\ SubSeq(s, 1, 10) = "0001-01-01"
SentinelVerdict(v) == IF IsMinDate(Get(v, "value", "")) \/ IsMinDate(Get(v, "start", "")) \/ IsMinDate(Get(v, "end", ""))
                      THEN "NotResolved: the minimum date 0001-01-01 is emitted where 'not resolved' is due" ELSE "ok"

(* e: entity [type, res]; first failing clause over its values *)
EntityVerdict(e) ==
  IF ~Has(e.res, "values") THEN "Resolved: entity without resolution values"
  ELSE LET vs == e.res.values
           clause(v) == IF ShapeVerdict(v) # "ok" THEN ShapeVerdict(v)
                        ELSE IF SentinelVerdict(v) # "ok" THEN SentinelVerdict(v)
                        ELSE IF DefiniteVerdict(v) # "ok" THEN DefiniteVerdict(v)
                        ELSE IF RangeDefiniteVerdict(v) # "ok" THEN RangeDefiniteVerdict(v)
                        ELSE IF e.type # "datetimeV2." \o Get(v, "type", "") THEN "TypeName: entity type name differs from the type of a value"
                        ELSE "ok"
           badk == { k \in 1..Len(vs) : clause(vs[k]) # "ok" }
       IN IF Len(vs) = 0 THEN "Resolved: empty values list"
          ELSE IF badk = {} THEN "ok" ELSE clause(vs[CHOOSE k \in badk : \A j \in badk : k <= j])

TripleEntityVerdict(e) ==
  IF ~Has(e.res, "values") THEN "ok"
  ELSE LET vs == e.res.values badk == { k \in 1..Len(vs) : TripleVerdict(vs[k]) # "ok" } IN
       IF badk = {} THEN "ok" ELSE TripleVerdict(vs[CHOOSE k \in badk : \A j \in badk : k <= j])
=============================================================================
