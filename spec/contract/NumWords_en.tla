----------------------------- MODULE NumWords_en -----------------------------
(* C04 contract, English: the standard written-out form of a non-negative integer below 10^15
   (with or without "and", tens hyphenated or spaced) is one number entity whose value is that
   integer; the ordinal form yields the same integer from the ordinal model.
   Integers are sequences of base-1000 groups, most significant first (TLC integers are 32 bit). *)
EXTENDS Integers, Sequences, FiniteSets, TLC, RTStrings

Ones == <<"one", "two", "three", "four", "five", "six", "seven", "eight", "nine", "ten", "eleven", "twelve", "thirteen", "fourteen", "fifteen",
          "sixteen", "seventeen", "eighteen", "nineteen">>
Tens == <<"", "twenty", "thirty", "forty", "fifty", "sixty", "seventy", "eighty", "ninety">>
Scales == <<"", "thousand", "million", "billion", "trillion">>
OnesOrd == <<"first", "second", "third", "fourth", "fifth", "sixth", "seventh", "eighth", "ninth", "tenth", "eleventh", "twelfth", "thirteenth", "fourteenth",
             "fifteenth", "sixteenth", "seventeenth", "eighteenth", "nineteenth">>
TensOrd == <<"", "twentieth", "thirtieth", "fortieth", "fiftieth", "sixtieth", "seventieth", "eightieth", "ninetieth">>
ScalesOrd == <<"", "thousandth", "millionth", "billionth", "trillionth">>

(* variant: [and: BOOLEAN, hyphen: BOOLEAN] *)
Below100(n, hyphen, ord) ==
  IF n < 20 THEN (IF ord THEN OnesOrd[n] ELSE Ones[n])
  ELSE IF n % 10 = 0 THEN (IF ord THEN TensOrd[n \div 10] ELSE Tens[n \div 10])
  ELSE Tens[n \div 10] \o (IF hyphen THEN "-" ELSE " ") \o (IF ord THEN OnesOrd[n % 10] ELSE Ones[n % 10])
(* one group 1..999; ord: the group ends the number and is written as an ordinal *)
Group(g, v, ord) ==
  LET h == g \div 100 r == g % 100 IN
  IF h = 0 THEN Below100(r, v.hyphen, ord)
  ELSE IF r = 0 THEN Ones[h] \o " " \o (IF ord THEN "hundredth" ELSE "hundred")
  ELSE Ones[h] \o " hundred " \o (IF v.and THEN "and " ELSE "") \o Below100(r, v.hyphen, ord)

LastNonZero(gs) == CHOOSE i \in 1..Len(gs) : gs[i] # 0 /\ \A j \in (i + 1)..Len(gs) : gs[j] = 0
RECURSIVE SpellFrom(_, _, _, _)
(* gs: groups most significant first; i: current index; last: index of the last non-zero group *)
SpellFrom(gs, i, v, ord) ==
  IF i > Len(gs) THEN ""
  ELSE LET g == gs[i]
           scale == Len(gs) - i + 1
           last == LastNonZero(gs)
           rest == SpellFrom(gs, i + 1, v, ord)
       IN IF g = 0 THEN rest
          ELSE LET isLast == i = last
                   (* "one thousand and five": 'and' before a final group below 100 when higher groups exist *)
                   lead == IF v.and /\ i = Len(gs) /\ g < 100 /\ \E j \in 1..(i - 1) : gs[j] # 0 THEN "and " ELSE ""
                   body == IF ord /\ isLast /\ scale > 1
                           THEN Group(g, v, FALSE) \o " " \o ScalesOrd[scale]
                           ELSE Group(g, v, ord /\ isLast) \o (IF scale > 1 THEN " " \o Scales[scale] ELSE "")
               IN lead \o body \o (IF rest = "" THEN "" ELSE " " \o rest)
IsZero(gs) == \A i \in 1..Len(gs) : gs[i] = 0
Spell(gs, v) == IF IsZero(gs) THEN "zero" ELSE SpellFrom(gs, 1, v, FALSE)
SpellOrdinal(gs, v) == SpellFrom(gs, 1, v, TRUE)

(* decimal digits of the integer *)
RECURSIVE DigitsFrom(_, _, _)
DigitsFrom(gs, i, started) ==
  IF i > Len(gs) THEN (IF started THEN "" ELSE "0")
  ELSE IF ~started /\ gs[i] = 0 THEN DigitsFrom(gs, i + 1, FALSE)
  ELSE (IF started THEN (IF gs[i] < 10 THEN "00" ELSE IF gs[i] < 100 THEN "0" ELSE "") \o ToString(gs[i]) ELSE ToString(gs[i])) \o DigitsFrom(gs, i + 1, TRUE)
Digits10(gs) == DigitsFrom(gs, 1, FALSE)

Variants == { [and |-> a, hyphen |-> h] : a \in BOOLEAN, h \in BOOLEAN }
VarName(v) == (IF v.and THEN "and" ELSE "noand") \o (IF v.hyphen THEN "-hyphen" ELSE "-space")

CONSTANTS Small,        \* upper bound for the exhaustive range 0..Small-1
          LimbPool,     \* group values for multi-group numbers
          MaxGroups     \* up to this many groups from the pool (all products up to 2 groups, sampled patterns beyond)

Groups(n) == IF n < 1000 THEN <<n>> ELSE <<n \div 1000, n % 1000>>
SmallSet == { Groups(n) : n \in 0..(Small - 1) }
(* powers of ten and their neighbours up to 10^15 - 1 *)
Pow(k) == [i \in 1..((k \div 3) + 1) |-> IF i = 1 THEN (CASE k % 3 = 0 -> 1 [] k % 3 = 1 -> 10 [] k % 3 = 2 -> 100) ELSE 0]
PowPlus1(k) == [i \in 1..((k \div 3) + 1) |-> IF i = 1 THEN (IF k < 3 THEN Pow(k)[1] + 1 ELSE Pow(k)[1]) ELSE IF i = (k \div 3) + 1 THEN 1 ELSE 0]
PowMinus1(k) == IF k % 3 = 0 THEN [i \in 1..(k \div 3) |-> 999]
                ELSE [i \in 1..((k \div 3) + 1) |-> IF i = 1 THEN (IF k % 3 = 1 THEN 9 ELSE 99) ELSE 999]
Boundaries == { Pow(k) : k \in 0..14 } \cup { PowPlus1(k) : k \in 1..14 } \cup { PowMinus1(k) : k \in 1..15 }
(* multi-group numbers from the pool: all pairs; for 3..MaxGroups groups: one non-zero group per scale ("sparse"), and patterns head-zero-tail *)
RECURSIVE ZeroSeq(_)
ZeroSeq(n) == IF n = 0 THEN <<>> ELSE <<0>> \o ZeroSeq(n - 1)
Pairs == { <<a, b>> : a \in LimbPool \ {0}, b \in LimbPool }
Sparse == UNION { { <<a>> \o ZeroSeq(z) \o <<b>> : a \in LimbPool \ {0}, b \in LimbPool \ {0} } : z \in 1..(MaxGroups - 2) }
Triples == { <<a, b, c>> : a \in {1, 20, 999}, b \in LimbPool, c \in {0, 5, 100, 999} }
Full == { [i \in 1..k |-> g] : k \in 3..MaxGroups, g \in {1, 21, 100, 999} }
Numbers == SmallSet \cup Boundaries \cup Pairs \cup Sparse \cup Triples \cup Full

MkCase(gs, v, ord) ==
  LET text == IF ord THEN SpellOrdinal(gs, v) ELSE Spell(gs, v) IN
  [api |-> (IF ord THEN "ordinal" ELSE "number"), culture |-> "en-us", text |-> text, s |-> 0, e |-> Len(text) - 1, expect |-> Digits10(gs),
   variant |-> VarName(v),
   shape |-> (IF \E i \in 1..(Len(gs) - 1) : gs[i] % 100 \in 10..19 /\ \E j \in (i + 1)..Len(gs) : gs[j] # 0 THEN "teen-group-before-lower-groups" ELSE "plain"),
   size |-> (IF Len(gs) = 1 THEN "<10^3" ELSE IF Len(gs) = 2 THEN "<10^6" ELSE ">=10^6")]
(* variants that do not change the text are generated once *)
Cases == { MkCase(gs, v, ord) : gs \in Numbers, v \in Variants, ord \in BOOLEAN } \ { c \in { MkCase(<<0>>, v, TRUE) : v \in Variants } : TRUE }

Verdict(c, obs) ==
  LET es == obs.ents IN
  IF Len(es) = 0 THEN "Recognised: the written-out number yields no entity"
  ELSE IF Len(es) > 1 THEN "Single: the written-out number yields more than one entity"
  ELSE LET e == es[1] IN
       IF e.s # c.s \/ e.e # c.e THEN "Span: the entity does not cover exactly the phrase"
       ELSE IF ~Has(e.res, "value") THEN "Resolved: no value"
       ELSE IF e.res.value # c.expect THEN "Value: the resolved value is not the integer written"
       ELSE "ok"
=============================================================================
