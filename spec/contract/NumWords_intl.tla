---------------------------- MODULE NumWords_intl ----------------------------
(* C04 contract for further cultures: the standard written-out cardinal of every integer in the
   generated range is one number entity whose value is that integer.  The numeral grammars of
   Spanish, French, German, Chinese and Japanese are written here for 0..9999 ("{e9}" = U+00E9,
   see RTStrings!CpLen). *)
EXTENDS Integers, Sequences, FiniteSets, TLC, RTStrings

(* ---------------------------------------------------------------- Spanish *)
EsUnits == <<"uno", "dos", "tres", "cuatro", "cinco", "seis", "siete", "ocho", "nueve", "diez", "once", "doce", "trece", "catorce", "quince",
             "diecis{e9}is", "diecisiete", "dieciocho", "diecinueve", "veinte", "veintiuno", "veintid{f3}s", "veintitr{e9}s", "veinticuatro", "veinticinco",
             "veintis{e9}is", "veintisiete", "veintiocho", "veintinueve">>
EsTens == <<"", "", "treinta", "cuarenta", "cincuenta", "sesenta", "setenta", "ochenta", "noventa">>
EsHundreds == <<"ciento", "doscientos", "trescientos", "cuatrocientos", "quinientos", "seiscientos", "setecientos", "ochocientos", "novecientos">>
Es99(n) == IF n < 30 THEN EsUnits[n] ELSE IF n % 10 = 0 THEN EsTens[n \div 10] ELSE EsTens[n \div 10] \o " y " \o EsUnits[n % 10]
Es999(n) == IF n < 100 THEN Es99(n) ELSE IF n = 100 THEN "cien" ELSE IF n % 100 = 0 THEN EsHundreds[n \div 100] ELSE EsHundreds[n \div 100] \o " " \o Es99(n % 100)
SpellEs(n) == IF n = 0 THEN "cero" ELSE IF n < 1000 THEN Es999(n)
              ELSE (IF n \div 1000 = 1 THEN "mil" ELSE Es999(n \div 1000) \o " mil") \o (IF n % 1000 = 0 THEN "" ELSE " " \o Es999(n % 1000))

(* ---------------------------------------------------------------- French *)
FrUnits == <<"un", "deux", "trois", "quatre", "cinq", "six", "sept", "huit", "neuf", "dix", "onze", "douze", "treize", "quatorze", "quinze", "seize", "dix-sept", "dix-huit", "dix-neuf">>
FrTens == <<"", "vingt", "trente", "quarante", "cinquante", "soixante">>
Fr99(n) ==
  IF n < 20 THEN FrUnits[n]
  ELSE IF n < 70 THEN (IF n % 10 = 0 THEN FrTens[n \div 10] ELSE IF n % 10 = 1 THEN FrTens[n \div 10] \o " et un" ELSE FrTens[n \div 10] \o "-" \o FrUnits[n % 10])
  ELSE IF n < 80 THEN (IF n = 71 THEN "soixante et onze" ELSE "soixante-" \o FrUnits[n - 60])
  ELSE IF n = 80 THEN "quatre-vingts"
  ELSE "quatre-vingt-" \o FrUnits[n - 80]
Fr999(n) == IF n < 100 THEN Fr99(n)
            ELSE IF n \div 100 = 1 THEN (IF n = 100 THEN "cent" ELSE "cent " \o Fr99(n % 100))
            ELSE IF n % 100 = 0 THEN FrUnits[n \div 100] \o " cents" ELSE FrUnits[n \div 100] \o " cent " \o Fr99(n % 100)
SpellFr(n) == IF n = 0 THEN "z{e9}ro" ELSE IF n < 1000 THEN Fr999(n)
              ELSE (IF n \div 1000 = 1 THEN "mille" ELSE Fr999(n \div 1000) \o " mille") \o (IF n % 1000 = 0 THEN "" ELSE " " \o Fr999(n % 1000))

(* ---------------------------------------------------------------- German (compound words) *)
DeUnits == <<"ein", "zwei", "drei", "vier", "f{fc}nf", "sechs", "sieben", "acht", "neun", "zehn", "elf", "zw{f6}lf", "dreizehn", "vierzehn", "f{fc}nfzehn", "sechzehn", "siebzehn", "achtzehn", "neunzehn">>
DeTens == <<"", "zwanzig", "drei{df}ig", "vierzig", "f{fc}nfzig", "sechzig", "siebzig", "achtzig", "neunzig">>
De99(n, final) == IF n = 1 THEN (IF final THEN "eins" ELSE "ein") ELSE IF n < 20 THEN DeUnits[n]
                  ELSE IF n % 10 = 0 THEN DeTens[n \div 10] ELSE DeUnits[n % 10] \o "und" \o DeTens[n \div 10]
De999(n, final) == IF n < 100 THEN De99(n, final) ELSE DeUnits[n \div 100] \o "hundert" \o (IF n % 100 = 0 THEN "" ELSE De99(n % 100, final))
SpellDe(n) == IF n = 0 THEN "null" ELSE IF n < 1000 THEN De999(n, TRUE)
              ELSE De999(n \div 1000, FALSE) \o "tausend" \o (IF n % 1000 = 0 THEN "" ELSE De999(n % 1000, TRUE))

(* ---------------------------------------------------------------- Chinese / Japanese *)
CjkDigit == <<"{4e00}", "{4e8c}", "{4e09}", "{56db}", "{4e94}", "{516d}", "{4e03}", "{516b}", "{4e5d}">>
Shi == "{5341}"  Bai == "{767e}"  Qian == "{5343}"  Wan == "{4e07}"  Ling == "{96f6}"
(* Chinese: zeros inside are written once as ling; 10..19 alone are shi + digit; inside larger numbers yi shi *)
Zh9999(n, top) ==
  LET q == n \div 1000 b == (n \div 100) % 10 s == (n \div 10) % 10 g == n % 10
      qs == IF q > 0 THEN CjkDigit[q] \o Qian ELSE ""
      bs == IF b > 0 THEN CjkDigit[b] \o Bai ELSE IF q > 0 /\ (s > 0 \/ g > 0) THEN Ling ELSE ""
      ss == IF s > 0 THEN (IF s = 1 /\ q = 0 /\ b = 0 /\ top THEN Shi ELSE CjkDigit[s] \o Shi) ELSE IF b > 0 /\ g > 0 THEN Ling ELSE ""
      gs == IF g > 0 THEN CjkDigit[g] ELSE ""
  IN qs \o bs \o ss \o gs
Yi == "{4ebf}"
(* below 10^8: the ten-thousands written like a number of their own followed by wan; a gap is filled by one ling *)
SpellZh8(n, top) == LET hi == n \div 10000 lo == n % 10000 IN
                    IF hi = 0 THEN Zh9999(lo, top)
                    ELSE Zh9999(hi, top) \o Wan \o (IF lo = 0 THEN "" ELSE (IF lo < 1000 THEN Ling ELSE "") \o Zh9999(lo, FALSE))
SpellZh(n) == IF n = 0 THEN Ling
              ELSE LET hi == n \div 100000000 lo == n % 100000000 IN
                   IF hi = 0 THEN SpellZh8(lo, TRUE)
                   ELSE SpellZh8(hi, TRUE) \o Yi \o (IF lo = 0 THEN "" ELSE (IF lo < 10000000 THEN Ling ELSE "") \o SpellZh8(lo, FALSE))
(* Japanese: no ling, 1 is omitted before ten / hundred / thousand *)
Ja9999(n) ==
  LET q == n \div 1000 b == (n \div 100) % 10 s == (n \div 10) % 10 g == n % 10 IN
  (IF q > 0 THEN (IF q = 1 THEN "" ELSE CjkDigit[q]) \o Qian ELSE "") \o (IF b > 0 THEN (IF b = 1 THEN "" ELSE CjkDigit[b]) \o Bai ELSE "")
  \o (IF s > 0 THEN (IF s = 1 THEN "" ELSE CjkDigit[s]) \o Shi ELSE "") \o (IF g > 0 THEN CjkDigit[g] ELSE "")
SpellJa(n) == IF n = 0 THEN "{96f6}" ELSE IF n < 10000 THEN Ja9999(n) ELSE CjkDigit[n \div 10000] \o Wan \o (IF n % 10000 = 0 THEN "" ELSE Ja9999(n % 10000))

(* ---------------------------------------------------------------- Portuguese (pt-br) *)
PtUnits == <<"um", "dois", "tr{ea}s", "quatro", "cinco", "seis", "sete", "oito", "nove", "dez", "onze", "doze", "treze", "quatorze", "quinze", "dezesseis", "dezessete", "dezoito", "dezenove">>
PtTens == <<"", "vinte", "trinta", "quarenta", "cinquenta", "sessenta", "setenta", "oitenta", "noventa">>
PtHundreds == <<"cento", "duzentos", "trezentos", "quatrocentos", "quinhentos", "seiscentos", "setecentos", "oitocentos", "novecentos">>
Pt99(n) == IF n < 20 THEN PtUnits[n] ELSE IF n % 10 = 0 THEN PtTens[n \div 10] ELSE PtTens[n \div 10] \o " e " \o PtUnits[n % 10]
Pt999(n) == IF n < 100 THEN Pt99(n) ELSE IF n = 100 THEN "cem" ELSE IF n % 100 = 0 THEN PtHundreds[n \div 100] ELSE PtHundreds[n \div 100] \o " e " \o Pt99(n % 100)
(* "e" joins the thousands to a rest below 100 or a round hundred *)
SpellPt(n) == IF n = 0 THEN "zero" ELSE IF n < 1000 THEN Pt999(n)
              ELSE LET r == n % 1000 IN
                   (IF n \div 1000 = 1 THEN "mil" ELSE Pt999(n \div 1000) \o " mil")
                   \o (IF r = 0 THEN "" ELSE IF r < 100 \/ r % 100 = 0 THEN " e " \o Pt999(r) ELSE " " \o Pt999(r))

(* ---------------------------------------------------------------- Italian (below 100, round hundreds and thousands) *)
ItUnits == <<"uno", "due", "tre", "quattro", "cinque", "sei", "sette", "otto", "nove", "dieci", "undici", "dodici", "tredici", "quattordici", "quindici", "sedici", "diciassette", "diciotto", "diciannove">>
ItTens == <<"", "venti", "trenta", "quaranta", "cinquanta", "sessanta", "settanta", "ottanta", "novanta">>
DropLast(s) == SubSeq(s, 1, Len(s) - 1)
It99(n) == IF n < 20 THEN ItUnits[n] ELSE IF n % 10 = 0 THEN ItTens[n \div 10]
           ELSE IF n % 10 \in {1, 8} THEN DropLast(ItTens[n \div 10]) \o ItUnits[n % 10]
           ELSE IF n % 10 = 3 THEN ItTens[n \div 10] \o "tr{e9}" ELSE ItTens[n \div 10] \o ItUnits[n % 10]
SpellIt(n) == IF n = 0 THEN "zero" ELSE IF n < 100 THEN It99(n)
              ELSE IF n < 1000 THEN (IF n \div 100 = 1 THEN "cento" ELSE ItUnits[n \div 100] \o "cento")
              ELSE (IF n \div 1000 = 1 THEN "mille" ELSE ItUnits[n \div 1000] \o "mila")
ItDomain(n) == n < 100 \/ (n < 1000 /\ n % 100 = 0) \/ (n < 10000 /\ n % 1000 = 0)

(* ---------------------------------------------------------------- Dutch (below 100, round hundreds and thousands) *)
NlUnits == <<"een", "twee", "drie", "vier", "vijf", "zes", "zeven", "acht", "negen", "tien", "elf", "twaalf", "dertien", "veertien", "vijftien", "zestien", "zeventien", "achttien", "negentien">>
NlTens == <<"", "twintig", "dertig", "veertig", "vijftig", "zestig", "zeventig", "tachtig", "negentig">>
Nl99(n) == IF n < 20 THEN NlUnits[n] ELSE IF n % 10 = 0 THEN NlTens[n \div 10]
           ELSE NlUnits[n % 10] \o (IF n % 10 \in {2, 3} THEN "{eb}n" ELSE "en") \o NlTens[n \div 10]
SpellNl(n) == IF n = 0 THEN "nul" ELSE IF n < 100 THEN Nl99(n)
              ELSE IF n < 1000 THEN (IF n \div 100 = 1 THEN "honderd" ELSE NlUnits[n \div 100] \o "honderd")
              ELSE (IF n \div 1000 = 1 THEN "duizend" ELSE NlUnits[n \div 1000] \o "duizend")

InDomain(cul, n) == IF cul \in {"it-it", "nl-nl"} THEN ItDomain(n) ELSE TRUE

Spell(cul, n) == CASE cul = "pt-br" -> SpellPt(n) [] cul = "it-it" -> SpellIt(n) [] cul = "nl-nl" -> SpellNl(n) [] cul = "es-es" -> SpellEs(n) [] cul = "fr-fr" -> SpellFr(n) [] cul = "de-de" -> SpellDe(n) [] cul = "zh-cn" -> SpellZh(n) [] cul = "ja-jp" -> SpellJa(n)

(* digit pattern of n: each digit as "0", "1" or "n" (2..9) - identifies the numeral construction used *)
RECURSIVE DigitPattern(_)
DigitPattern(s) == IF Len(s) = 0 THEN "" ELSE (IF Ch(s, 1) \in {"0", "1"} THEN Ch(s, 1) ELSE "n") \o DigitPattern(SubSeq(s, 2, Len(s)))

CONSTANTS Ns, Cultures
MkCase(cul, n) ==
  LET text == Spell(cul, n) IN
  [api |-> "number", culture |-> cul, text |-> text, s |-> 0, e |-> CpLen(text) - 1, expect |-> ToString(n), variant |-> "standard", shape |-> DigitPattern(ToString(n)) \o (IF cul = "it-it" /\ n % 10 = 3 /\ n > 20 /\ n < 100 THEN "-accented-tre" ELSE ""),
   size |-> (IF n < 100 THEN "<100" ELSE IF n < 1000 THEN "<10^3" ELSE IF n < 100000 THEN "<10^5" ELSE ">=10^8")]
(* Chinese numbers with a yi (10^8) section: the sections after it are round, sparse or full *)
ZhBigNs == {100000000, 120000000, 350000000, 100010000, 1200000000, 1234560000, 2000000001, 305000000, 110000000, 1000100010}
Cases == { MkCase(t[1], t[2]) : t \in { x \in Cultures \X Ns : InDomain(x[1], x[2]) } }
         \cup (IF "zh-cn" \in Cultures THEN { MkCase("zh-cn", n) : n \in ZhBigNs } ELSE {})

Verdict(c, obs) ==
  LET es == obs.ents IN
  IF Len(es) = 0 THEN "Recognised: the written-out number yields no entity"
  ELSE IF Len(es) > 1 THEN "Single: the written-out number yields more than one entity"
  ELSE LET e == es[1] IN
       IF e.s # c.s \/ e.e # c.e THEN "Span: the entity does not cover exactly the phrase"
       ELSE IF ~Has(e.res, "value") THEN "Resolved: no value"
       ELSE IF e.res.value # c.expect THEN "Value: the resolved value is not the integer written"
       ELSE "ok"
=============================================================================
