------------------------------- MODULE RelDate -------------------------------
(* C08 contract: relative date expressions are calendar arithmetic on the reference datetime R.
   R is a day ordinal plus a time of day; every oracle works on ordinals / (year, month) pairs,
   never through a day-of-month. *)
EXTENDS DTCommon

CONSTANTS RefDays,      \* set of day ordinals
          RefTimes,     \* set of <<h, m, s>>
          Ns            \* set of N for "N days ago" etc.

DateCase(text, n, t, target) ==
  [prop |-> "C08", culture |-> "en-us", ref |-> RefStr(n, t[1], t[2], t[3]), text |-> text, s |-> 0, e |-> Len(text) - 1,
   type |-> "date", vals |-> <<V1(OrdStr(target), "date", OrdStr(target))>>, ordered |-> FALSE, fam |-> "day"]

Plural(k, unit) == ToString(k) \o " " \o unit \o (IF k = 1 THEN "" ELSE "s")

DayCases(n, t) ==
  { DateCase("today", n, t, n), DateCase("tomorrow", n, t, n + 1), DateCase("yesterday", n, t, n - 1) }
  \cup UNION { { DateCase(Plural(k, "day") \o " ago", n, t, n - k),
                 DateCase("in " \o Plural(k, "day"), n, t, n + k),
                 DateCase(Plural(k, "day") \o " from now", n, t, n + k),
                 DateCase(Plural(k, "week") \o " ago", n, t, n - 7 * k),
                 DateCase("in " \o Plural(k, "week"), n, t, n + 7 * k) } : k \in Ns }

(* next / last / this <weekday>: that weekday of the following / preceding / current ISO week *)
WeekdayCases(n, t) ==
  { [DateCase("next " \o WeekdayEn[w], n, t, MondayOf(n) + 7 + (w - 1)) EXCEPT !.fam = "weekday"] : w \in 1..7 }
  \cup { [DateCase("last " \o WeekdayEn[w], n, t, MondayOf(n) - 7 + (w - 1)) EXCEPT !.fam = "weekday"] : w \in 1..7 }
  \cup { [DateCase("this " \o WeekdayEn[w], n, t, MondayOf(n) + (w - 1)) EXCEPT !.fam = "weekday"] : w \in 1..7 }

RangeCase(text, n, t, timex, start, end, fam) ==
  [prop |-> "C08", culture |-> "en-us", ref |-> RefStr(n, t[1], t[2], t[3]), text |-> text, s |-> 0, e |-> Len(text) - 1,
   type |-> "daterange", vals |-> <<V2(timex, "daterange", start, end)>>, ordered |-> FALSE, fam |-> fam]

Shift(word) == CASE word = "this" -> 0 [] word = "next" -> 1 [] word = "last" -> -1

WeekCase(word, n, t) ==
  LET mon == MondayOf(n) + 7 * Shift(word) IN
  RangeCase(word \o " week", n, t, Pad4(IsoWeekYear(mon)) \o "-W" \o Pad2(IsoWeek(mon)), OrdStr(mon), OrdStr(mon + 7), "week")
MonthCase(word, n, t) ==
  LET civ == FromOrdinal(n)
      ym == ShiftMonth(civ[1], civ[2], Shift(word))
      nx == ShiftMonth(ym[1], ym[2], 1)
  IN RangeCase(word \o " month", n, t, Pad4(ym[1]) \o "-" \o Pad2(ym[2]), DateStr(ym[1], ym[2], 1), DateStr(nx[1], nx[2], 1), "month")
YearCase(word, n, t) ==
  LET y == FromOrdinal(n)[1] + Shift(word) IN
  RangeCase(word \o " year", n, t, Pad4(y), DateStr(y, 1, 1), DateStr(y + 1, 1, 1), "year")
PeriodCases(n, t) == { WeekCase(w, n, t) : w \in {"this", "next", "last"} }
                     \cup { MonthCase(w, n, t) : w \in {"this", "next", "last"} }
                     \cup { YearCase(w, n, t) : w \in {"this", "next", "last"} }

NowCase(n, t) ==
  [prop |-> "C08", culture |-> "en-us", ref |-> RefStr(n, t[1], t[2], t[3]), text |-> "now", s |-> 0, e |-> 2,
   type |-> "datetime", vals |-> <<V1("PRESENT_REF", "datetime", OrdStr(n) \o " " \o TimeStr(t[1], t[2], t[3]))>>, ordered |-> FALSE, fam |-> "now"]

Cases == UNION { DayCases(n, t) \cup WeekdayCases(n, t) \cup PeriodCases(n, t) \cup {NowCase(n, t)} : n \in RefDays, t \in RefTimes }
=============================================================================
