------------------------------ MODULE DTCommon ------------------------------
(* Shared by the date-time contracts C06-C10: the shape of a generated case, the shape of an
   observation of recognize_datetime, and the relation between them.
   case c: [text, culture, ref, s, e, type, vals, ordered]
       vals: sequence of <<timex, type, value-or-start, end-or-"">>
   obs:   [ents |-> sequence of [s, e, text, type, res]] with res.values a sequence of records
          of strings (timex, type, value | start, end, ...), or res.nores = TRUE *)
EXTENDS Integers, Sequences, FiniteSets, TLC, RTStrings, Calendar

V1(timex, ty, value) == <<timex, ty, value, "">>
V2(timex, ty, start, end) == <<timex, ty, start, end>>

RefStr(n, h, mi, s) == OrdStr(n) \o "T" \o TimeStr(h, mi, s)

ObsVal(v) == <<Get(v, "timex", ""), Get(v, "type", ""),
               (IF Has(v, "value") THEN v.value ELSE Get(v, "start", "")), Get(v, "end", "")>>
ObsVals(e) == IF Has(e.res, "values") THEN [k \in 1..Len(e.res.values) |-> ObsVal(e.res.values[k])] ELSE <<>>
SeqSet(s) == { s[k] : k \in 1..Len(s) }

(* an expected TIMEX "*" leaves the TIMEX unconstrained (the statement fixes only the endpoints) *)
Wild(c, vs) == [k \in 1..Len(vs) |-> IF \E x \in SeqSet(c.vals) : x[1] = "*" THEN <<"*", vs[k][2], vs[k][3], vs[k][4]>> ELSE vs[k]]

(* one entity e against the expectation x = [s, e, type, vals, ordered] *)
OneVerdict(x, e) ==
  IF e.s # x.s \/ e.e # x.e THEN "Span: the entity does not cover exactly the expression"
  ELSE IF e.type # "datetimeV2." \o x.type THEN "Type: entity type is " \o e.type \o ", expected datetimeV2." \o x.type
  ELSE IF ~Has(e.res, "values") THEN "Resolved: the entity carries no resolution values"
  ELSE IF x.ordered /\ Wild(x, ObsVals(e)) # x.vals THEN "Values: resolution values differ from the expected sequence"
  ELSE IF ~x.ordered /\ (SeqSet(Wild(x, ObsVals(e))) # SeqSet(x.vals) \/ Len(ObsVals(e)) # Len(x.vals)) THEN "Values: resolution values differ from the expected set"
  ELSE "ok"
(* c.lead, when present, is an entity expected before the main one (split date and time mode) *)
ExactVerdict(c, obs) ==
  LET es == obs.ents IN
  IF Len(es) = 0 THEN "Recognised: the expression yields no entity"
  ELSE IF Has(c, "lead") THEN
       (IF Len(es) # 2 THEN "Split: date and time are not returned as two entities"
        ELSE IF OneVerdict(c.lead, es[1]) # "ok" THEN OneVerdict(c.lead, es[1])
        ELSE OneVerdict(c, es[2]))
  ELSE IF Len(es) > 1 THEN "Single: the expression yields more than one entity"
  ELSE OneVerdict(c, es[1])

MonthNameEn == <<"January", "February", "March", "April", "May", "June", "July", "August", "September", "October", "November", "December">>
MonthAbbrEn == <<"Jan", "Feb", "Mar", "Apr", "May", "Jun", "Jul", "Aug", "Sep", "Oct", "Nov", "Dec">>
WeekdayEn == <<"monday", "tuesday", "wednesday", "thursday", "friday", "saturday", "sunday">>
OrdSuffix(d) == IF d \in {11, 12, 13} THEN "th" ELSE IF d % 10 = 1 THEN "st" ELSE IF d % 10 = 2 THEN "nd" ELSE IF d % 10 = 3 THEN "rd" ELSE "th"
DayOrd(d) == ToString(d) \o OrdSuffix(d)

(* month and weekday names of the other cultures (written here, not read from the code) *)
MonthName(cul) ==
  CASE cul = "fr-fr" -> <<"janvier", "f{e9}vrier", "mars", "avril", "mai", "juin", "juillet", "ao{fb}t", "septembre", "octobre", "novembre", "d{e9}cembre">>
    [] cul \in {"es-es", "es-mx"} -> <<"enero", "febrero", "marzo", "abril", "mayo", "junio", "julio", "agosto", "septiembre", "octubre", "noviembre", "diciembre">>
    [] cul = "pt-br" -> <<"janeiro", "fevereiro", "mar{e7}o", "abril", "maio", "junho", "julho", "agosto", "setembro", "outubro", "novembro", "dezembro">>
    [] cul = "de-de" -> <<"Januar", "Februar", "M{e4}rz", "April", "Mai", "Juni", "Juli", "August", "September", "Oktober", "November", "Dezember">>
    [] cul = "it-it" -> <<"gennaio", "febbraio", "marzo", "aprile", "maggio", "giugno", "luglio", "agosto", "settembre", "ottobre", "novembre", "dicembre">>
    [] cul = "nl-nl" -> <<"januari", "februari", "maart", "april", "mei", "juni", "juli", "augustus", "september", "oktober", "november", "december">>
WeekdayName(cul) ==
  CASE cul = "fr-fr" -> <<"lundi", "mardi", "mercredi", "jeudi", "vendredi", "samedi", "dimanche">>
    [] cul \in {"es-es", "es-mx"} -> <<"lunes", "martes", "mi{e9}rcoles", "jueves", "viernes", "s{e1}bado", "domingo">>
    [] cul = "pt-br" -> <<"segunda-feira", "ter{e7}a-feira", "quarta-feira", "quinta-feira", "sexta-feira", "s{e1}bado", "domingo">>
    [] cul = "de-de" -> <<"Montag", "Dienstag", "Mittwoch", "Donnerstag", "Freitag", "Samstag", "Sonntag">>
    [] cul = "it-it" -> <<"luned{ec}", "marted{ec}", "mercoled{ec}", "gioved{ec}", "venerd{ec}", "sabato", "domenica">>
    [] cul = "nl-nl" -> <<"maandag", "dinsdag", "woensdag", "donderdag", "vrijdag", "zaterdag", "zondag">>
    [] cul = "zh-cn" -> <<"{5468}{4e00}", "{5468}{4e8c}", "{5468}{4e09}", "{5468}{56db}", "{5468}{4e94}", "{5468}{516d}", "{5468}{65e5}">>
    [] OTHER -> WeekdayEn
=============================================================================
