------------------------------ MODULE NumLiteral ------------------------------
(* C03 contract: a number written in digits with the culture's own grouping and decimal marks and
   an optional sign is one entity covering the literal; its value denotes the same number, printed
   with the culture's decimal mark and no grouping; with a percent sign the percentage model yields
   that value followed by '%'.  The per-culture marks are written here. *)
EXTENDS Integers, Sequences, FiniteSets, TLC, RTStrings, BigNat

CONSTANTS IntDigits,   \* set of digit strings without leading zero (or "0")
          Fracs,       \* set of fraction digit strings (possibly with trailing zeros), "" = none
          Cultures

DecMark(cul) == IF cul \in {"en-us", "es-mx", "ja-jp", "zh-cn"} THEN "." ELSE ","
GrpMark(cul) == IF DecMark(cul) = "." THEN "," ELSE "."

RECURSIVE GroupFrom(_, _, _)
(* insert the grouping mark every three digits from the right *)
GroupFrom(s, g, i) == IF i > Len(s) THEN ""
                      ELSE Ch(s, i) \o (IF (Len(s) - i) % 3 = 0 /\ i < Len(s) THEN g ELSE "") \o GroupFrom(s, g, i + 1)
Grouped(s, g) == GroupFrom(s, g, 1)

SigDigits(int, frac) == Len(StripLeadingZeros(int \o frac))

CarrierPre(cul) == CASE cul = "en-us" -> "it costs " [] cul \in {"es-es", "es-mx"} -> "cuesta " [] cul = "fr-fr" -> "il vaut " [] cul = "pt-br" -> "custa "
                     [] cul = "de-de" -> "es kostet " [] cul = "it-it" -> "costa " [] cul = "nl-nl" -> "het kost " [] cul = "zh-cn" -> "{4ef7}{683c}{662f} " [] cul = "ja-jp" -> "{5024}{6bb5}{306f} "
CarrierPost(cul) == CASE cul = "en-us" -> " today" [] cul \in {"es-es", "es-mx"} -> " hoy" [] cul = "fr-fr" -> " maintenant" [] cul = "pt-br" -> " hoje"
                      [] cul = "de-de" -> " heute" [] cul = "it-it" -> " oggi" [] cul = "nl-nl" -> " vandaag" [] cul = "zh-cn" -> " {3002}" [] cul = "ja-jp" -> " {3067}{3059}"

(* expected value text: sign, integer digits, culture decimal mark + fraction without trailing zeros *)
ValueText(cul, neg, int, frac) ==
  LET f == StripTrailingZeros(frac)
      isZero == StripLeadingZeros(int) = "0" /\ f = ""
  IN (IF neg /\ ~isZero THEN "-" ELSE "") \o StripLeadingZeros(int) \o (IF f = "" THEN "" ELSE DecMark(cul) \o f)

MkCase(cul, neg, grouped, int, frac, carrier, pct) ==
  LET lit == (IF neg THEN "-" ELSE "") \o (IF grouped THEN Grouped(int, GrpMark(cul)) ELSE int) \o (IF frac = "" THEN "" ELSE DecMark(cul) \o frac) \o (IF pct THEN "%" ELSE "")
      pre == IF carrier THEN CarrierPre(cul) ELSE ""
      post == IF carrier THEN CarrierPost(cul) ELSE ""
  IN [culture |-> cul, api |-> (IF pct THEN "percentage" ELSE "number"), text |-> pre \o lit \o post,
      s |-> CpLen(pre), e |-> CpLen(pre) + Len(lit) - 1,
      num |-> <<(IF neg THEN "-" ELSE ""), StripLeadingZeros(int), StripTrailingZeros(frac)>>, pct |-> pct,
      expect |-> ValueText(cul, neg, int, frac) \o (IF pct THEN "%" ELSE ""),
      shape |-> (IF neg THEN "neg" ELSE "pos") \o (IF grouped THEN "-grouped" \o ToString((Len(int) - 1) \div 3) ELSE "-plain") \o (IF frac = "" THEN "-int" ELSE "-frac")
                \o (IF Len(int) <= 3 THEN "-i3" ELSE "-i4") \o (IF carrier THEN "-carrier" ELSE "")]

Cases == { MkCase(cul, neg, grouped, int, frac, carrier, pct) :
             cul \in Cultures, neg \in BOOLEAN, grouped \in BOOLEAN, int \in IntDigits, frac \in Fracs, carrier \in BOOLEAN, pct \in BOOLEAN }
ValidCase(c, int, frac, grouped) == TRUE
WellFormed == { c \in Cases : TRUE }

(* ------------------------------------------------------------------ verdict *)
(* observed value text -> <<sign, integer digits, fraction digits>>, "?" if not a number.  Accepts
   the E+nn / E-nn forms CultureInfo.format can emit. *)
RECURSIVE Zs(_)
Zs(n) == IF n <= 0 THEN "" ELSE "0" \o Zs(n - 1)
ShiftExp(int, frac, e) ==      \* multiply by 10^e
  IF e >= 0 THEN (IF Len(frac) >= e THEN <<int \o SubSeq(frac, 1, e), SubSeq(frac, e + 1, Len(frac))>> ELSE <<int \o frac \o Zs(e - Len(frac)), "">>)
  ELSE LET k == 0 - e IN (IF Len(int) > k THEN <<SubSeq(int, 1, Len(int) - k), SubSeq(int, Len(int) - k + 1, Len(int)) \o frac>> ELSE <<"0", Zs(k - Len(int)) \o int \o frac>>)
ParseValue(v, dec) ==
  LET neg == Len(v) > 0 /\ Ch(v, 1) = "-"
      body == IF neg THEN SubSeq(v, 2, Len(v)) ELSE v
      ePos == IndexOf(body, "E")
      mant == IF ePos = 0 THEN body ELSE SubSeq(body, 1, ePos - 1)
      expS == IF ePos = 0 THEN "" ELSE SubSeq(body, ePos + 1, Len(body))
      expNeg == Len(expS) > 0 /\ Ch(expS, 1) = "-"
      expD == IF Len(expS) > 0 /\ Ch(expS, 1) \in {"+", "-"} THEN SubSeq(expS, 2, Len(expS)) ELSE expS
      dot == IndexOf(mant, dec)
      ip == IF dot = 0 THEN mant ELSE SubSeq(mant, 1, dot - 1)
      fp == IF dot = 0 THEN "" ELSE SubSeq(mant, dot + 1, Len(mant))
  IN IF ~(Len(ip) >= 1 /\ AllDigits(ip) /\ AllDigits(fp) /\ AllDigits(expD) /\ (ePos = 0 \/ Len(expD) >= 1) /\ Len(expD) <= 3)
     THEN <<"?", "", "">>
     ELSE LET sh == IF ePos = 0 THEN <<ip, fp>> ELSE ShiftExp(ip, fp, IF expNeg THEN 0 - ToNat(expD) ELSE ToNat(expD))
              i2 == StripLeadingZeros(IF sh[1] = "" THEN "0" ELSE sh[1])
              f2 == StripTrailingZeros(sh[2])
          IN <<(IF neg /\ ~(i2 = "0" /\ f2 = "") THEN "-" ELSE ""), i2, f2>>

ExpectNum(c) == <<(IF c.num[2] = "0" /\ c.num[3] = "" THEN "" ELSE c.num[1]), c.num[2], c.num[3]>>

Verdict(c, obs) ==
  LET es == obs.ents IN
  IF Len(es) = 0 THEN "Recognised: the literal yields no entity"
  ELSE IF Len(es) > 1 THEN "Single: the literal yields more than one entity"
  ELSE LET e == es[1] IN
       IF e.s # c.s \/ e.e # c.e THEN "Span: the entity does not cover exactly the literal"
       ELSE IF ~Has(e.res, "value") THEN "Resolved: no value"
       ELSE LET v == e.res.value
                vv == IF c.pct THEN (IF EndsWith(v, "%") THEN SubSeq(v, 1, Len(v) - 1) ELSE "?") ELSE v
            IN IF vv = "?" THEN "Percent: the value does not end with the percent sign"
               ELSE IF ParseValue(vv, DecMark(c.culture)) # ExpectNum(c) THEN "Value: the resolved value does not denote the number written (in the culture's decimal mark)"
               ELSE IF IndexOf(vv, GrpMark(c.culture)) # 0 /\ IndexOf(vv, "E") = 0 THEN "Value: the resolved value contains a grouping mark"
               ELSE "ok"
=============================================================================
