------------------------------ MODULE Routing ------------------------------
(* C17 contract: which model a request must be answered by.  The supported culture codes are
   written here; which (model type, culture) pairs a recogniser registers is a constant supplied
   from the running configuration. *)
EXTENDS Integers, Sequences, FiniteSets, TLC, RTStrings

CONSTANTS Registered,     \* set of <<model type, culture>>
          ValidOptions    \* function: model type -> set of valid option values

Supported == {"en-us", "en-*", "nl-nl", "zh-cn", "fr-fr", "it-it", "ja-jp", "ko-kr", "pt-br", "es-es", "es-mx", "tr-tr", "de-de"}
English == "en-us"
NoCode == "<none>"          \* stands for None / the empty string

Lang(code) == LET d == IndexOf(code, "-") IN IF d = 0 THEN code ELSE SubSeq(code, 1, d - 1)

(* supported code in any letter case -> itself; regional variant of a language with exactly one
   supported culture -> that culture; anything else unresolved *)
Resolve(code) ==
  IF code = NoCode \/ code = "" THEN "unresolved"
  ELSE LET lc == ToLower(code) IN
       IF lc \in Supported THEN lc
       ELSE LET same == { s \in Supported : Lang(s) = Lang(lc) } IN
            IF Cardinality(same) = 1 THEN CHOOSE s \in same : TRUE ELSE "unresolved"

(* request: [type, code, opt, fb]; expectation: [kind |-> "model", type, culture, opt] or [kind |-> "error"] *)
Expected(r) ==
  IF r.opt \notin ValidOptions[r.type] THEN [kind |-> "error"]
  ELSE LET c == Resolve(r.code) IN
       IF c # "unresolved" /\ <<r.type, c>> \in Registered THEN [kind |-> "model", type |-> r.type, culture |-> c, opt |-> r.opt]
       ELSE IF r.fb /\ <<r.type, English>> \in Registered THEN [kind |-> "model", type |-> r.type, culture |-> English, opt |-> r.opt]
       ELSE [kind |-> "error"]

(* obs: [kind |-> "model", type, culture, opt] (the tag of the constructor that built the returned
   model) or [kind |-> "error", exception] *)
Verdict(r, obs) ==
  LET e == Expected(r) IN
  IF e.kind = "error" THEN
       (IF obs.kind = "error" /\ obs.exception = "ValueError" THEN "ok"
        ELSE IF obs.kind = "error" THEN "ErrorKind: expected ValueError, got " \o obs.exception
        ELSE "NoSilentFallback: a model was returned where a ValueError is required")
  ELSE IF obs.kind = "error" THEN "Served: the request raised " \o obs.exception \o " instead of returning a model"
  ELSE IF obs.type # e.type THEN "WrongType: model of another type returned"
  ELSE IF obs.culture # e.culture THEN "WrongLanguage: model of culture " \o obs.culture \o " returned, expected " \o e.culture
  ELSE IF obs.opt # e.opt THEN "WrongOptions: model built for other options returned"
  ELSE "ok"

(* ---- behaviour fingerprint: the model served for a culture must read that culture's word for
   "two" as 2, and a non-English model must not read the English word *)
TwoWord == [c \in {"en-us", "es-es", "es-mx", "fr-fr", "pt-br", "de-de", "it-it", "nl-nl", "zh-cn", "ja-jp"} |->
             CASE c = "en-us" -> "two" [] c \in {"es-es", "es-mx"} -> "dos" [] c = "fr-fr" -> "deux" [] c = "pt-br" -> "dois"
               [] c = "de-de" -> "zwei" [] c = "it-it" -> "due" [] c = "nl-nl" -> "twee" [] c \in {"zh-cn", "ja-jp"} -> "二"]
(* c: [type, culture]; obs: [served, hits (sequence of cultures whose word resolved to 2)] *)
FingerprintVerdict(c, obs) ==
  LET hits == { obs.hits[k] : k \in 1..Len(obs.hits) } IN
  IF obs.served.kind # "model" THEN "Served: no model for a registered culture"
  ELSE IF c.culture \notin hits THEN "WrongLanguage: the model served for " \o c.culture \o " does not read that culture's numeral"
  ELSE IF c.culture # "en-us" /\ "en-us" \in hits THEN "WrongLanguage: the model served for " \o c.culture \o " reads English"
  ELSE "ok"
=============================================================================
