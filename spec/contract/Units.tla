-------------------------------- MODULE Units --------------------------------
(* C05 contract: every listed unit spelling maps to its canonical unit and keeps the number.
   The quantifier domain - the (culture, type, unit, surface, side) entries of the prefix / suffix
   tables wired into each registered model, and the main / fraction currency pairs - is read from
   a JSON snapshot of the running configuration (IOEnv.VERIF_TABLES); "listed" is relative to
   these tables.  Texts are built by the harness from table indices (surfaces are not ASCII and
   are never held in TLC state variables); the expectations are computed here. *)
EXTENDS Integers, Sequences, FiniteSets, TLC, RTStrings, BigNat

DecMark(cul) == IF cul \in {"en-us", "es-mx", "ja-jp", "zh-cn"} THEN "." ELSE ","
(* numerals: index -> <<integer digits, fraction digits>> *)
Numerals == << <<"12", "">>, <<"3", "5">>, <<"1", "">>, <<"250", "">>, <<"2", "">>, <<"3", "">> >>
NumText(cul, k) == Numerals[k][1] \o (IF Numerals[k][2] = "" THEN "" ELSE DecMark(cul) \o Numerals[k][2])
Connector(cul) == CASE cul = "en-us" -> "and" [] cul \in {"es-es", "es-mx"} -> "y" [] cul = "fr-fr" -> "et" [] cul \in {"pt-br", "it-it"} -> "e"
                    [] cul = "de-de" -> "und" [] cul = "nl-nl" -> "en" [] OTHER -> ""
Amounts == << <<1, 1>>, <<2, 50>>, <<10, 5>>, <<100, 99>>, <<7, 3>>, <<1, 14>>, <<12, 59>> >>

(* observed value -> <<sign, int, frac>> (same parser as NumLiteral) *)
RECURSIVE Zs(_)
Zs(n) == IF n <= 0 THEN "" ELSE "0" \o Zs(n - 1)
ShiftExp(int, frac, e) ==
  IF e >= 0 THEN (IF Len(frac) >= e THEN <<int \o SubSeq(frac, 1, e), SubSeq(frac, e + 1, Len(frac))>> ELSE <<int \o frac \o Zs(e - Len(frac)), "">>)
  ELSE LET k == 0 - e IN (IF Len(int) > k THEN <<SubSeq(int, 1, Len(int) - k), SubSeq(int, Len(int) - k + 1, Len(int)) \o frac>> ELSE <<"0", Zs(k - Len(int)) \o int \o frac>>)
ParseValue(v, dec) ==
  LET neg == Len(v) > 0 /\ Ch(v, 1) = "-"
      body == IF neg THEN SubSeq(v, 2, Len(v)) ELSE v
      ePos == IndexOf(body, "E")
      mant == IF ePos = 0 THEN body ELSE SubSeq(body, 1, ePos - 1)
      expS == IF ePos = 0 THEN "" ELSE SubSeq(body, ePos + 1, Len(body))
      expNeg == Len(expS) > 0 /\ Ch(expS, 1) = "-"
      expD == IF Len(expS) > 0 /\ Ch(expS, 1) \in {"+", "-"} THEN SubSeq(expS, 2, Len(expS)) ELSE expS
      dot == IndexOf(mant, dec)
      ip == IF dot = 0 THEN mant ELSE SubSeq(mant, 1, dot - 1)
      fp == IF dot = 0 THEN "" ELSE SubSeq(mant, dot + 1, Len(mant))
  IN IF ~(Len(ip) >= 1 /\ AllDigits(ip) /\ AllDigits(fp) /\ AllDigits(expD) /\ (ePos = 0 \/ Len(expD) >= 1) /\ Len(expD) <= 3)
     THEN <<"?", "", "">>
     ELSE LET sh == IF ePos = 0 THEN <<ip, fp>> ELSE ShiftExp(ip, fp, IF expNeg THEN 0 - ToNat(expD) ELSE ToNat(expD))
              i2 == StripLeadingZeros(IF sh[1] = "" THEN "0" ELSE sh[1])
              f2 == StripTrailingZeros(sh[2])
          IN <<(IF neg /\ ~(i2 = "0" /\ f2 = "") THEN "-" ELSE ""), i2, f2>>

(* N + M / ratio as <<"", int digits, fraction digits>>; exact for the ratios in the tables (divisors of 1000) *)
CompoundValue(n, m, ratio) ==
  LET milli == (m * 1000) \div ratio
      total == n * 1000 + milli
      ip == ToString(total \div 1000)
      r == total % 1000
      fp == StripTrailingZeros((IF r < 10 THEN "00" ELSE IF r < 100 THEN "0" ELSE "") \o ToString(r))
  IN <<"", ip, fp>>
ExactRatio(ratio) == ratio > 0 /\ 1000 % ratio = 0

(* case c (built by the harness from table indices, checked here):
     single:   [kind, culture, type, len, units (sequence of units listing the surface), isos (parallel sequence), num]
     compound: [kind, culture, len, units, isos, n, m, ratio] *)
SeqSet(s) == { s[k] : k \in 1..Len(s) }
IsoOf(c, unit) == LET ks == { k \in 1..Len(c.units) : c.units[k] = unit } IN IF ks = {} THEN "" ELSE c.isos[CHOOSE k \in ks : TRUE]
RealIso(i) == i # "" /\ Ch(i, 1) # "_"

Verdict(c, obs) ==
  LET es == obs.ents IN
  IF Len(es) = 0 THEN "Recognised: a number with a listed unit spelling yields no entity"
  ELSE IF Len(es) > 1 THEN "Single: more than one entity"
  ELSE LET e == es[1] IN
       IF e.s # 0 \/ e.e # c.len - 1 THEN "Span: the entity does not cover number and unit"
       ELSE IF ~(Has(e.res, "unit") /\ Has(e.res, "value")) THEN "Resolved: unit or value missing"
       ELSE IF e.res.unit \notin SeqSet(c.units) THEN "Unit: the unit is not a canonical unit that lists this spelling"
       ELSE IF c.kind = "single" /\ ParseValue(e.res.value, DecMark(c.culture)) # <<"", Numerals[c.num][1], Numerals[c.num][2]>> THEN "Value: the value is not what the number model gives for the numeral"
       ELSE IF c.kind = "compound" /\ ParseValue(e.res.value, DecMark(c.culture)) # CompoundValue(c.n, c.m, c.ratio) THEN "Compound: the value is not N + M / ratio in the main unit"
       ELSE IF RealIso(IsoOf(c, e.res.unit)) /\ Get(e.res, "isoCurrency", "") # IsoOf(c, e.res.unit) THEN "Iso: the ISO code is not the one the table assigns to the unit"
       ELSE "ok"
=============================================================================
