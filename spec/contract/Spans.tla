------------------------------- MODULE Spans -------------------------------
(* C01 / C12 contract over the entities of one model call.
   Text is handled as sequences of code points (offsets are in code points; TLC strings are
   UTF-16).  Each event carries, besides the raw code points, their length-preserving lower-casing
   (one code point in, one out; a code point whose lower-casing would change the length is left
   as it is) computed by the harness from Python's own str.lower; the full-width table of the
   library's documented pre-processing is written here. *)
EXTENDS Integers, Sequences, FiniteSets, TLC

(* full-width digits and punctuation -> ASCII (QueryProcessor.preprocess, 24 entries) *)
FullWidth(cp) ==
  IF cp >= 65296 /\ cp <= 65305 THEN cp - 65248            \* full-width digits 0..9
  ELSE CASE cp = 65306 -> 58     \* full-width colon
         [] cp = 65293 -> 45     \* full-width hyphen-minus
         [] cp = 65292 -> 44     \* full-width comma
         [] cp = 65295 -> 47     \* full-width solidus
         [] cp = 65319 -> 71     \* full-width G
         [] cp = 65325 -> 77     \* M
         [] cp = 65332 -> 84     \* T
         [] cp = 65323 -> 75     \* K
         [] cp = 65355 -> 107    \* k
         [] cp = 65294 -> 46     \* full-width full stop
         [] cp = 65288 -> 40     \* (
         [] cp = 65289 -> 41     \* )
         [] cp = 65285 -> 37     \* %
         [] cp = 12289 -> 44     \* ideographic comma
         [] OTHER -> cp
(* after the table, letters G M T K are compared caselessly like everything else *)
LowerAscii(cp) == IF cp >= 65 /\ cp <= 90 THEN cp + 32 ELSE cp
Norm(cpLower) == LowerAscii(FullWidth(cpLower))

WhiteSpace == {9, 10, 11, 12, 13, 32, 133, 160, 5760, 8192, 8193, 8194, 8195, 8196, 8197, 8198, 8199, 8200, 8201, 8202, 8232, 8233, 8239, 8287, 12288, 28, 29, 30, 31}
RECURSIVE TrimLeft(_)
TrimLeft(s) == IF Len(s) > 0 /\ s[1] \in WhiteSpace THEN TrimLeft(Tail(s)) ELSE s
RECURSIVE TrimRight(_)
TrimRight(s) == IF Len(s) > 0 /\ s[Len(s)] \in WhiteSpace THEN TrimRight(SubSeq(s, 1, Len(s) - 1)) ELSE s
Trim(s) == TrimRight(TrimLeft(s))
MapNorm(s) == [k \in 1..Len(s) |-> Norm(s[k])]

(* ql: the query, lower-cased per code point; e: [s, e, tl (text lower-cased per code point)] *)
SpanVerdict(ql, e) ==
  IF ~(0 <= e.s /\ e.s <= e.e /\ e.e < Len(ql)) THEN "Bounds: not 0 <= start <= end < len(query)"
  ELSE IF Trim(MapNorm(SubSeq(ql, e.s + 1, e.e + 1))) # Trim(MapNorm(e.tl)) THEN "TextIsSlice: entity text differs from query[start..end] after normalisation"
  ELSE "ok"

Overlaps(a, b) == a.s <= b.e /\ b.s <= a.e
(* first failing clause over all entities of the call; which = "span" (C01) or "overlap" (C12) *)
SpansVerdict(ql, ents) ==
  LET badk == { k \in 1..Len(ents) : SpanVerdict(ql, ents[k]) # "ok" } IN
  IF badk = {} THEN "ok"
  ELSE LET k == CHOOSE x \in badk : \A j \in badk : x <= j IN SpanVerdict(ql, ents[k]) \o " [entity " \o ToString(k) \o "]"
DisjointVerdict(ents) ==
  IF \E a, b \in 1..Len(ents) : a < b /\ Overlaps(ents[a], ents[b])
  THEN "Disjoint: two entities of one call share a character" ELSE "ok"
=============================================================================
