----------------------------- MODULE SeqEntities -----------------------------
(* C13 contract: IP addresses, GUIDs and other sequence entities.
   Completeness: every generated well-formed address / GUID / e-mail / URL / hashtag / mention /
   phone number standing as its own token is one entity with its exact span (value = text, for
   IP the value denotes the same address).
   Soundness: anything the IP model reports is a valid address and its value denotes the same
   address as its text (IPv6 compared after expansion of "::"). *)
EXTENDS Integers, Sequences, FiniteSets, TLC, RTStrings, BigNat

CONSTANTS V4Octets,     \* set of octet values for exhaustive IPv4 products
          V4Full        \* BOOLEAN: full product (thorough) or boundary mix (quick)

Carriers == << <<"", "">>, <<"x is ", " ok">>, <<"(", ")">> >>

MkCase(api, kind, expr, k, value) ==
  [api |-> api, kind |-> kind, text |-> Carriers[k][1] \o expr \o Carriers[k][2], s |-> Len(Carriers[k][1]), e |-> Len(Carriers[k][1]) + Len(expr) - 1,
   value |-> value, complete |-> TRUE]
NearMiss(api, kind, text) == [api |-> api, kind |-> kind, text |-> text, s |-> 0, e |-> 0, value |-> "", complete |-> FALSE]

(* ---- IPv4 *)
V4Text(a, b, c, d) == ToString(a) \o "." \o ToString(b) \o "." \o ToString(c) \o "." \o ToString(d)
Pad3(n) == IF n < 10 THEN "00" \o ToString(n) ELSE IF n < 100 THEN "0" \o ToString(n) ELSE ToString(n)
V4Quads == IF V4Full THEN V4Octets \X V4Octets \X V4Octets \X V4Octets
           ELSE { q \in V4Octets \X V4Octets \X V4Octets \X V4Octets : Cardinality({q[1], q[2], q[3], q[4]}) <= 2 }
V4Cases == { MkCase("ip", "ipv4", V4Text(q[1], q[2], q[3], q[4]), k, V4Text(q[1], q[2], q[3], q[4])) : q \in V4Quads, k \in 1..3 }
           \cup { MkCase("ip", "ipv4-leading-zeros", Pad3(q[1]) \o "." \o Pad2(q[2] % 100) \o "." \o Pad3(q[3]) \o "." \o ToString(q[4]), 1,
                         V4Text(q[1], q[2] % 100, q[3], q[4])) : q \in { x \in V4Quads : x[1] # x[3] } }
V4NearMisses == { NearMiss("ip", "ipv4-near-miss", t) :
                    t \in { ToString(o) \o ".1.1.1" : o \in {256, 260, 300, 999} } \cup { "1.1.1." \o ToString(o) : o \in {256, 299, 1000} }
                          \cup { "1." \o ToString(o) \o ".1.1" : o \in {256, 777} } \cup {"1.2.3", "1..2.3", "1.2.3.", ".1.2.3.4", "1.2.3.4.5", "1234.1.1.1", "1.2.3.4.5.6.7.8", "a.b.c.d", "1,2,3,4"} }

(* ---- IPv6: hextets as lower-case hex strings without leading zeros *)
HexVals == <<"1", "f", "10", "ff", "100", "fff", "1000", "ffff", "d08", "a0", "b003", "c0de">>
HexUpper(s) == [i \in 1..Len(s) |-> IF Ch(s, i) \in {"a", "b", "c", "d", "e", "f"} THEN Ch(UpperAZ, IndexOf(LowerAZ, Ch(s, i))) ELSE Ch(s, i)]
RECURSIVE Join(_, _, _)
Join(seq, sep, i) == IF i > Len(seq) THEN "" ELSE (IF i > 1 THEN sep ELSE "") \o seq[i] \o Join(seq, sep, i + 1)
UpStr(s) == LET RECURSIVE U(_) U(i) == IF i > Len(s) THEN "" ELSE (IF IndexOf("abcdef", Ch(s, i)) > 0 THEN Ch("ABCDEF", IndexOf("abcdef", Ch(s, i))) ELSE Ch(s, i)) \o U(i + 1) IN U(1)
Pad4H(h) == SubSeq("0000", 1, 4 - Len(h)) \o h
Hextet(k, pos) == HexVals[((k + pos) % 12) + 1]
(* base pattern k, zero run at positions p..p+L-1 (L = 0: no run); style: pad, upper *)
V6Groups(k, p, L) == [i \in 1..8 |-> IF L > 0 /\ i >= p /\ i < p + L THEN "0" ELSE Hextet(k, i)]
Style(h, pad, upper) == LET x == IF pad THEN Pad4H(h) ELSE h IN IF upper THEN UpStr(x) ELSE x
V6Full(k, p, L, pad, upper) == Join([i \in 1..8 |-> Style(V6Groups(k, p, L)[i], pad, upper)], ":", 1)
V6Compressed(k, p, L, pad, upper) ==
  LET g == V6Groups(k, p, L)
      left == Join([i \in 1..(p - 1) |-> Style(g[i], pad, upper)], ":", 1)
      right == Join([i \in 1..(8 - (p + L) + 1) |-> Style(g[p + L + i - 1], pad, upper)], ":", 1)
  IN left \o "::" \o right
CanonV6(k, p, L) == Join(V6Groups(k, p, L), ":", 1)
V6Cases == { MkCase("ip", "ipv6-full", V6Full(k, 1, 0, pad, up), c, CanonV6(k, 1, 0)) : k \in 0..11, pad \in BOOLEAN, up \in BOOLEAN, c \in 1..3 }
           \cup { MkCase("ip", "ipv6-compressed", V6Compressed(k, t[1], t[2], pad, up), 1, CanonV6(k, t[1], t[2]))
                  : k \in 0..11, t \in { x \in (1..8) \X (1..8) : x[1] + x[2] <= 9 }, pad \in BOOLEAN, up \in BOOLEAN }
           \cup { MkCase("ip", "ipv6-zero-run-written", V6Full(k, t[1], t[2], pad, FALSE), 2, CanonV6(k, t[1], t[2])) : k \in {0, 3}, t \in { x \in (1..8) \X (1..8) : x[1] + x[2] <= 9 }, pad \in BOOLEAN }
V6NearMisses == { NearMiss("ip", "ipv6-near-miss", t) : t \in {"1:2:3:4:5:6:7:8:9", "1:2:3:4:5:6:7", "12345::1", "1::2::3", "g::1", ":::", "1:2:3:4:5:6:7:8::", "::1:2:3:4:5:6:7:8"} }

(* addresses written without any decimal digit, in carriers without digits *)
V6Alpha == {"dead:beef::cafe", "::", "ff::", "fe::ab", "a:b:c:d:e:f:a:b", "::ffff", "abcd::", "FE::AB"}
V6AlphaCases == { MkCase("ip", "ipv6-no-digit", t, k, t) : t \in V6Alpha, k \in 1..3 }
(* two addresses in one text, both families in both orders *)
PairCase(a, b) == LET pre == "from " mid == " to " IN
  [api |-> "ip", kind |-> "ip-pair", text |-> pre \o a \o mid \o b \o " now", s |-> Len(pre), e |-> Len(pre) + Len(a) - 1, value |-> a,
   s2 |-> Len(pre) + Len(a) + Len(mid), e2 |-> Len(pre) + Len(a) + Len(mid) + Len(b) - 1, value2 |-> b, complete |-> TRUE]
PairAddrs == {"10.0.0.1", "192.168.255.254", "fe80::1", "2001:db8:0:1:1:1:1:1", "::ffff"}
PairCases == { PairCase(a, b) : a \in PairAddrs, b \in PairAddrs }

(* ---- GUID *)
GuidBodies == {"123e4567-e89b-12d3-a456-426614174000", "00000000-0000-0000-0000-000000000000", "ffffffff-ffff-ffff-ffff-ffffffffffff", "0f8fad5b-d9cb-469f-a165-70867728950e",
               "a1b2c3d4-e5f6-0718-293a-4b5c6d7e8f90", "deadbeef-dead-beef-dead-beefdeadbeef"}
RECURSIVE StripDash(_, _)
StripDash(s, i) == IF i > Len(s) THEN "" ELSE (IF Ch(s, i) = "-" THEN "" ELSE Ch(s, i)) \o StripDash(s, i + 1)
GuidCases == UNION { { MkCase("guid", "guid-dashed", g, k, g), MkCase("guid", "guid-braced", "{" \o g \o "}", k, "{" \o g \o "}"),
                       MkCase("guid", "guid-upper", UpStr(g), k, g), MkCase("guid", "guid-undashed", StripDash(g, 1), k, StripDash(g, 1)) } : g \in GuidBodies, k \in {1, 2} }

(* ---- e-mail, URL, hashtag, mention, phone: value equals text (lower-cased by the models) *)
Locals == {"a", "first.last", "a_b-c", "user123", "x.y.z"}
Domains == {"b.com", "sub.example.org", "d.co.uk", "mail.example.net", "example.io"}
EmailCases == { MkCase("email", "email", l \o "@" \o d, k, l \o "@" \o d) : l \in Locals, d \in Domains, k \in {1, 2} }
(* calibration: the statement speaks of URLs "with a listed TLD"; info and biz are not in the library's TLD list and are not generated *)
TLDs == {"com", "org", "net", "io", "edu", "gov", "de", "fr", "cn", "jp", "uk", "co", "us"}
UrlCases == UNION { { MkCase("url", "url-www", "www.example." \o t, k, "www.example." \o t), MkCase("url", "url-http", "http://example." \o t \o "/path?q=1", k, "http://example." \o t \o "/path?q=1"),
                      MkCase("url", "url-https", "https://a.b." \o t, k, "https://a.b." \o t), MkCase("url", "url-bare", "example." \o t, k, "example." \o t) } : t \in TLDs, k \in {1, 2} }
Tags == {"tag", "tag_1", "hello", "x2", "verif"}
HashCases == { MkCase("hashtag", "hashtag", "#" \o t, k, "#" \o t) : t \in Tags, k \in {1, 2} }
MentionCases == { MkCase("mention", "mention", "@" \o t, k, "@" \o t) : t \in {"me", "some_one", "bob", "user42"}, k \in {1, 2} }
Phones == {"425-555-0100", "(425) 555-0100", "+1 425 555 0100", "+44 20 7946 0958", "1-800-555-0199", "425.555.0100", "+86 10 6552 9988", "020 7946 0958", "(206) 555-0123"}
PhoneCases == { MkCase("phone", "phone", p, k, p) : p \in Phones, k \in {1, 2} }

Cases == V4Cases \cup V4NearMisses \cup V6Cases \cup V6NearMisses \cup V6AlphaCases \cup PairCases \cup GuidCases \cup EmailCases \cup UrlCases \cup HashCases \cup MentionCases \cup PhoneCases

(* ------------------------------------------------------------------ validity and denotation of IP text *)
HexDigits == {"0", "1", "2", "3", "4", "5", "6", "7", "8", "9", "a", "b", "c", "d", "e", "f", "A", "B", "C", "D", "E", "F"}
HexDigitVal(c) == IF IsDigit(c) THEN DigitVal(c) ELSE IF IndexOf("abcdef", c) > 0 THEN 9 + IndexOf("abcdef", c) ELSE 9 + IndexOf("ABCDEF", c)
RECURSIVE HexNat(_)
HexNat(s) == IF Len(s) = 0 THEN 0 ELSE HexNat(SubSeq(s, 1, Len(s) - 1)) * 16 + HexDigitVal(Ch(s, Len(s)))
IsHextet(h) == Len(h) >= 1 /\ Len(h) <= 4 /\ \A i \in 1..Len(h) : Ch(h, i) \in HexDigits
IsOctetText(o) == Len(o) >= 1 /\ Len(o) <= 3 /\ AllDigits(o) /\ ToNat(o) <= 255
V4Denotes(t) == LET p == Split(t, ".") IN IF Len(p) = 4 /\ \A i \in 1..4 : IsOctetText(p[i]) THEN [i \in 1..4 |-> ToNat(p[i])] ELSE <<>>
(* expand "::" to the missing zero groups; <<>> when the text is not a valid IPv6 address *)
V6Denotes(t) ==
  LET dc == CHOOSE i \in 0..Len(t) : (i = 0 /\ \A j \in 1..(Len(t) - 1) : SubSeq(t, j, j + 1) # "::") \/ (i > 0 /\ i < Len(t) /\ SubSeq(t, i, i + 1) = "::" /\ \A j \in 1..(i - 1) : SubSeq(t, j, j + 1) # "::")
  IN IF dc = 0
     THEN (LET p == Split(t, ":") IN IF Len(p) = 8 /\ \A i \in 1..8 : IsHextet(p[i]) THEN [i \in 1..8 |-> HexNat(p[i])] ELSE <<>>)
     ELSE LET ls == SubSeq(t, 1, dc - 1)
              rs == SubSeq(t, dc + 2, Len(t))
              lp == IF ls = "" THEN <<>> ELSE Split(ls, ":")
              rp == IF rs = "" THEN <<>> ELSE Split(rs, ":")
          IN IF Len(lp) + Len(rp) <= 7 /\ (\A i \in 1..Len(lp) : IsHextet(lp[i])) /\ (\A i \in 1..Len(rp) : IsHextet(rp[i]))
             THEN [i \in 1..8 |-> IF i <= Len(lp) THEN HexNat(lp[i]) ELSE IF i > 8 - Len(rp) THEN HexNat(rp[i - (8 - Len(rp))]) ELSE 0]
             ELSE <<>>
IpDenotes(t) == IF IndexOf(t, ":") > 0 THEN V6Denotes(t) ELSE V4Denotes(t)

ScoreOK(sc) == sc = "None" \/ (IsDecimal(sc) /\ LET n == DecNorm(sc) IN n[1] = "0" \/ (n[1] = "1" /\ n[2] = ""))

(* ------------------------------------------------------------------ verdict *)
Sound(c, es) ==
  IF c.api # "ip" THEN "ok"
  ELSE IF \E k \in 1..Len(es) : IpDenotes(es[k].text) = <<>> THEN "Sound: something reported as an IP address is not a valid address"
  ELSE IF \E k \in 1..Len(es) : ~Has(es[k].res, "value") \/ IpDenotes(es[k].res.value) # IpDenotes(es[k].text) THEN "Sound: the resolved value of a reported IP address does not denote the same address as its text"
  ELSE "ok"

Verdict(c, obs) ==
  LET es == obs.ents IN
  IF Sound(c, es) # "ok" THEN Sound(c, es)
  ELSE IF ~c.complete THEN "ok"
  ELSE IF Len(es) = 0 THEN "Recognised: the well-formed expression yields no entity"
  ELSE IF Has(c, "s2") THEN
       (IF Len(es) # 2 THEN "Recognised: two addresses in one text do not yield two entities"
        ELSE IF es[1].s # c.s \/ es[1].e # c.e \/ es[2].s # c.s2 \/ es[2].e # c.e2 THEN "Span: an entity does not cover exactly its address"
        ELSE IF ~Has(es[1].res, "value") \/ ~Has(es[2].res, "value") THEN "Resolved: no value"
        ELSE IF IpDenotes(es[1].res.value) # IpDenotes(c.value) \/ IpDenotes(es[2].res.value) # IpDenotes(c.value2) THEN "Value: the resolved value denotes another address"
        ELSE "ok")
  ELSE IF Len(es) > 1 THEN "Single: more than one entity"
  ELSE LET e == es[1] IN
       IF e.s # c.s \/ e.e # c.e THEN "Span: the entity does not cover exactly the expression"
       ELSE IF ~Has(e.res, "value") THEN "Resolved: no value"
       ELSE IF c.api = "ip" /\ IpDenotes(e.res.value) # IpDenotes(c.value) THEN "Value: the resolved value denotes another address"
       ELSE IF c.api # "ip" /\ ToLower(e.res.value) # ToLower(c.value) THEN "Value: the resolved value differs from the text"
       ELSE IF Has(e.res, "score") /\ ~ScoreOK(e.res.score) THEN "Score: outside [0, 1]"
       ELSE "ok"
=============================================================================
