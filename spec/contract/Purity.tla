------------------------------- MODULE Purity -------------------------------
(* C02 contract: recognition is a pure function of the request (query, culture, model, options,
   reference).  Observations of the same request - whatever was recognised before, whichever
   thread, cold or warm cache - must all be identical.
   PurityMech below is the design-level model: results computed from the request alone are pure
   under every interleaving; results that read the calling thread's decimal context are not. *)
EXTENDS Integers, Sequences, FiniteSets, TLC

CONSTANTS Threads, Requests, ImportingThread, ParseReadsThreadCtx, MaxObs

VARIABLES ctx,      \* thread-local decimal precision
          ideal,    \* request -> first observed result
          obsCount, violated
vars == <<ctx, ideal, obsCount, violated>>

(* getcontext().prec = 15 runs once, on the thread that imports the package *)
Init == /\ ctx = [t \in Threads |-> IF t = ImportingThread THEN 15 ELSE 28]
        /\ ideal = <<>>
        /\ obsCount = 0
        /\ violated = FALSE

Result(t, r) == IF ParseReadsThreadCtx /\ r \in {"one third"} THEN <<r, ctx[t]>> ELSE <<r, 0>>

Observe(t, r) ==
  /\ obsCount < MaxObs
  /\ obsCount' = obsCount + 1
  /\ IF r \in DOMAIN ideal
     THEN /\ violated' = (violated \/ ideal[r] # Result(t, r))
          /\ UNCHANGED ideal
     ELSE /\ ideal' = [x \in (DOMAIN ideal) \cup {r} |-> IF x = r THEN Result(t, r) ELSE ideal[x]]
          /\ UNCHANGED violated
  /\ UNCHANGED ctx

Next == \E t \in Threads, r \in Requests : Observe(t, r)
Spec == Init /\ [][Next]_vars
ParsePure == ~violated
=============================================================================
