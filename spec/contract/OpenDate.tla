------------------------------- MODULE OpenDate -------------------------------
(* C09 contract: a month-and-day without year, or a bare weekday name, yields exactly two
   candidates for reference R: the latest occurrence strictly before R's date and the earliest
   occurrence on or after it, in that order, with a TIMEX that leaves the year / week open. *)
EXTENDS DTCommon

CONSTANTS MonthDays,    \* set of <<m, d>>
          RefDaysFor(_),\* reference day ordinals to use for a given <<m, d>>
          WeekRefDays,  \* reference days for weekday names
          RefTimes,
          Layouts,
          OtherCultures, \* cultures other than en-us in which the same two-candidate rule is exercised
          OtherMonthDays \* the <<m, d>> used for them

Occurrences(m, d, y0, y1) == { Ordinal(y, m, d) : y \in { yy \in y0..y1 : d <= DaysInMonth(yy, m) } }
MaxOf(S) == CHOOSE x \in S : \A z \in S : z <= x
MinOf(S) == CHOOSE x \in S : \A z \in S : x <= z
PastOcc(m, d, n) == LET y == FromOrdinal(n)[1] IN MaxOf({ x \in Occurrences(m, d, y - 8, y) : x < n })
FutureOcc(m, d, n) == LET y == FromOrdinal(n)[1] IN MinOf({ x \in Occurrences(m, d, y, y + 8) : x >= n })

MdText(l, m, d) == CASE l = 1 -> MonthNameEn[m] \o " " \o ToString(d)
                     [] l = 2 -> ToString(m) \o "/" \o ToString(d)
                     [] l = 3 -> MonthAbbrEn[m] \o " " \o ToString(d)
                     [] l = 4 -> MonthNameEn[m] \o " " \o DayOrd(d)

(* day and month name in the culture's idiom, no year *)
OtherMdText(cul, m, d) == CASE cul = "zh-cn" -> ToString(m) \o "{6708}" \o ToString(d) \o "{65e5}"
                            [] cul \in {"es-es", "es-mx", "pt-br"} -> ToString(d) \o " de " \o MonthName(cul)[m]
                            [] cul = "de-de" -> ToString(d) \o ". " \o MonthName(cul)[m]
                            [] OTHER -> ToString(d) \o " " \o MonthName(cul)[m]

MdCaseC(cul, text, m, d, n, t) ==
  LET timex == "XXXX-" \o Pad2(m) \o "-" \o Pad2(d)
  IN [prop |-> "C09", culture |-> cul, ref |-> RefStr(n, t[1], t[2], t[3]), text |-> text, s |-> 0, e |-> CpLen(text) - 1,
      type |-> "date", ordered |-> TRUE, kind |-> "monthday",
      rel |-> (IF FromOrdinal(n)[2] = m /\ FromOrdinal(n)[3] = d THEN "ref-is-that-day" ELSE "other"),
      tod |-> (IF t = <<0, 0, 0>> THEN "midnight" ELSE "later"),
      vals |-> <<V1(timex, "date", OrdStr(PastOcc(m, d, n))), V1(timex, "date", OrdStr(FutureOcc(m, d, n)))>>]
MdCase(l, m, d, n, t) == MdCaseC("en-us", MdText(l, m, d), m, d, n, t)

WdCaseC(cul, text, w, n, t) ==
  LET timex == "XXXX-WXX-" \o ToString(w)
      past == CHOOSE x \in (n - 7)..(n - 1) : IsoWeekday(x) = w
      fut == CHOOSE x \in n..(n + 6) : IsoWeekday(x) = w
  IN [prop |-> "C09", culture |-> cul, ref |-> RefStr(n, t[1], t[2], t[3]), text |-> text, s |-> 0, e |-> CpLen(text) - 1,
      type |-> "date", ordered |-> TRUE, kind |-> "weekday",
      rel |-> (IF IsoWeekday(n) = w THEN "ref-is-that-day" ELSE "other"),
      tod |-> (IF t = <<0, 0, 0>> THEN "midnight" ELSE "later"),
      vals |-> <<V1(timex, "date", OrdStr(past)), V1(timex, "date", OrdStr(fut))>>]
WdCase(w, n, t) == WdCaseC("en-us", WeekdayEn[w], w, n, t)

Cases == UNION { { MdCase(l, md[1], md[2], n, t) : l \in Layouts, n \in RefDaysFor(md), t \in RefTimes } : md \in MonthDays }
         \cup { WdCase(w, n, t) : w \in 1..7, n \in WeekRefDays, t \in RefTimes }
         \cup UNION { { MdCaseC(cul, OtherMdText(cul, md[1], md[2]), md[1], md[2], n, t) : cul \in OtherCultures, n \in RefDaysFor(md), t \in RefTimes } : md \in OtherMonthDays }
         \cup { WdCaseC(cul, WeekdayName(cul)[w], w, n, t) : cul \in OtherCultures, w \in 1..7, n \in WeekRefDays, t \in RefTimes }
         (* numeric day/month without a year in the day-first cultures (3/12 = 3 December), Dutch also with a dot *)
         \cup UNION { { MdCaseC(cul, ToString(md[2]) \o "/" \o ToString(md[1]), md[1], md[2], n, t) : cul \in OtherCultures \ {"zh-cn"}, n \in RefDaysFor(md), t \in RefTimes } : md \in OtherMonthDays }
         \cup UNION { { MdCaseC("nl-nl", ToString(md[2]) \o "." \o ToString(md[1]), md[1], md[2], n, t) : n \in RefDaysFor(md), t \in RefTimes } : md \in { x \in OtherMonthDays : "nl-nl" \in OtherCultures } }
         (* a reference with a sub-second part, as datetime.now() has *)
         \cup { [WdCaseC(cul, (IF cul = "en-us" THEN WeekdayEn[w] ELSE WeekdayName(cul)[w]), w, n, <<14, 5, 59>>) EXCEPT !.ref = @ \o ".250000"]
                 : cul \in {"en-us"} \cup (OtherCultures \cap {"zh-cn", "fr-fr"}), w \in 1..7, n \in WeekRefDays }
=============================================================================
