SPECIFICATION Spec
CONSTANTS
  RefYears = {2019}
  MonthFromFirst = FALSE
INVARIANT MeetsContract
CHECK_DEADLOCK FALSE
