SPECIFICATION Spec
CONSTANTS
  MaxTokens = 4
  Fixed = FALSE
INVARIANT InBounds
INVARIANT TextIsSlice
INVARIANT Disjoint
CHECK_DEADLOCK FALSE
