---------------------------- MODULE MC_Calendar ----------------------------
(* Model check of the calendar base module: every day ordinal in [Lo, Hi] is one state; the
   successor action steps to the next day and the invariants tie the closed-form operators to
   the step-by-step civil calendar. *)
EXTENDS Calendar
CONSTANTS Lo, Hi
VARIABLES n, y, m, d, wd
vars == <<n, y, m, d, wd>>

Init == /\ n = Lo
        /\ LET c == FromOrdinal(Lo) IN y = c[1] /\ m = c[2] /\ d = c[3]
        /\ wd = IsoWeekday(Lo)

NextDay == /\ n < Hi
           /\ n' = n + 1
           /\ wd' = (wd % 7) + 1
           /\ IF d < DaysInMonth(y, m) THEN d' = d + 1 /\ UNCHANGED <<y, m>>
              ELSE IF m < 12 THEN d' = 1 /\ m' = m + 1 /\ UNCHANGED y
              ELSE d' = 1 /\ m' = 1 /\ y' = y + 1
Next == NextDay
Spec == Init /\ [][Next]_vars

RoundTrip == FromOrdinal(n) = <<y, m, d>> /\ Ordinal(y, m, d) = n
WeekdayOK == IsoWeekday(n) = wd
IsoWeekOK == /\ IsoWeek(n) \in 1..53
             /\ IsoWeekYear(n) \in {y - 1, y, y + 1}
             /\ (wd = 1 /\ n > Lo) => TRUE
             /\ MondayOf(n) + wd - 1 = n
             /\ IsoWeek(MondayOf(n)) = IsoWeek(n) /\ IsoWeekYear(MondayOf(n)) = IsoWeekYear(n)
             /\ (m = 1 /\ d = 4) => (IsoWeek(n) = 1 /\ IsoWeekYear(n) = y)
             /\ (m = 12 /\ d = 28) => (IsoWeek(n) \in {52, 53} /\ IsoWeekYear(n) = y)
StrOK == DateStrValid(DateStr(y, m, d)) /\ DateStrOrd(DateStr(y, m, d)) = n /\ OrdStr(n) = DateStr(y, m, d)
MonthOK == /\ AddMonthsClamp(y, m, d, 12)[1] = y + 1
           /\ LET r == AddMonthsRollover(y, m, d, 1) IN ValidDate(r[1], r[2], r[3])
           /\ LET c == AddMonthsClamp(y, m, d, 1) IN ValidDate(c[1], c[2], c[3]) /\ <<c[1], c[2]>> = ShiftMonth(y, m, 1)
=============================================================================
