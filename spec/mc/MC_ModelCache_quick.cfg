SPECIFICATION Spec
CONSTANTS
  Threads = {1, 2}
  MaxCalls = 2
  CodeMapFixed = TRUE
  Registered <- MCRegistered
  Family <- MCFamily
  ValidOptions <- MCValid
  Reqs <- MCReqsQ
INVARIANT CacheKeyCorrect
INVARIANT ReturnedForKey
INVARIANT HeldForKey
CHECK_DEADLOCK FALSE
