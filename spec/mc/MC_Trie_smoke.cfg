SPECIFICATION Spec
CONSTANTS
  Syms = {"a", "b"}
  Ids = {"x", "y"}
  MaxPhrases = 1
  MaxPhraseLen = 2
  MaxQuery = 3
INVARIANT FindExact
INVARIANT PrefixClosed
CHECK_DEADLOCK FALSE
