SPECIFICATION Spec
CONSTANTS
  MaxItems = 5
INVARIANT Terminates
INVARIANT Ordered
INVARIANT EachCurrencyOnce
INVARIANT MainPlusFraction
INVARIANT GroupValue
CHECK_DEADLOCK FALSE
