SPECIFICATION Spec
CONSTANTS
  RefYears = {2019, 2020, 2021, 2024, 2026}
  MonthFromFirst = TRUE
INVARIANT MeetsContract
CHECK_DEADLOCK FALSE
