INIT MInit
NEXT MNext
CONSTANTS
  Small = 130
  LimbPool = {0, 5, 21, 100, 999}
  MaxGroups = 3
INVARIANT LexTotal
INVARIANT ValueCorrect
CHECK_DEADLOCK FALSE
