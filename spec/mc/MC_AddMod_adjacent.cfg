SPECIFICATION Spec
CONSTANTS
  MaxTokens = 3
  BoundedAfter = TRUE
  Fixed = TRUE
INVARIANT OnlyAdjacent
CHECK_DEADLOCK FALSE
