SPECIFICATION Spec
CONSTANTS
  MaxTokens = 3
  Fixed = TRUE
INVARIANT OnlyAdjacent
CHECK_DEADLOCK FALSE
