SPECIFICATION Spec
CONSTANTS
  Points = {0, 1, 2, 3, 4}
  MaxLen = 3
  Fixed = TRUE
INVARIANT NoGrowth
INVARIANT InsideSupplied
INVARIANT Collapsed
PROPERTY Terminates
CHECK_DEADLOCK FALSE
