SPECIFICATION Spec
CONSTANTS
  ResetAround = TRUE
INVARIANT Restored
INVARIANT StrippedInside
CHECK_DEADLOCK FALSE
