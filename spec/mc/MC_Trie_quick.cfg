SPECIFICATION Spec
CONSTANTS
  Syms = {"a", "b"}
  Ids = {"x", "y"}
  MaxPhrases = 2
  MaxPhraseLen = 2
  MaxQuery = 4
INVARIANT FindExact
INVARIANT PrefixClosed
CHECK_DEADLOCK FALSE
