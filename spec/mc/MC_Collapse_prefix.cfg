SPECIFICATION Spec
CONSTANTS
  Points = {0, 1, 2, 3}
  MaxLen = 3
  Fixed = FALSE
INVARIANT NoGrowth
CONSTRAINT BoundLen
