SPECIFICATION Spec
CONSTANTS
  MaxLen = 3
  Alphabet = {"a", "A", "K", "B", "b", "M", "I", " ", "5", "F"}
  KeepLength = FALSE
INVARIANT SameLength
INVARIANT SamePositions
INVARIANT UnitLettersKept
CHECK_DEADLOCK FALSE
