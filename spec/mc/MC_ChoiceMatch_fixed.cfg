SPECIFICATION Spec
CONSTANTS
  Alphabet = {"not", "ok", "x"}
  MaxSource = 3
  MaxMatch = 2
  MaxDistance = 2
  IndexOfFixed = TRUE
INVARIANT ScoreInUnit
INVARIANT NoRaise
CHECK_DEADLOCK FALSE
