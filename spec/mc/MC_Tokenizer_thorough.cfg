SPECIFICATION Spec
CONSTANTS
  MaxLen = 6
  Tokenizers = {"simple", "nwu"}
INVARIANT MechEqualsContract
INVARIANT MechTokensOK
CHECK_DEADLOCK FALSE
