SPECIFICATION Spec
CONSTANTS
  RefStride = 9
  RefYears = {2019, 2020, 2000, 2001}
  TimesOfDay = {0, 1}
CHECK_DEADLOCK FALSE
