SPECIFICATION Spec
CONSTANTS
  WeekOfMonthFixed = TRUE
  Years = {1, 2000, 9999}
  ComboYears = {2024}
  Days = {1, 28, 29, 30, 31}
  Hours = {0, 1, 12, 13, 23, 24}
  MinSecs = {0, 1, 59}
  Weeks = {1, 9, 10, 52, 53}
  Amounts = {"1", "2", "10", "100", "0.5", "1.5", "01", ".5", "1.50", "10.0", "30.00"}
INVARIANT MechContract
INVARIANT MechDenotation
INVARIANT MechTypesStable
CHECK_DEADLOCK FALSE
