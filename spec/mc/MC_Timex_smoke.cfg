SPECIFICATION Spec
CONSTANTS
  WeekOfMonthFixed = TRUE
  Years = {2000}
  ComboYears = {}
  Days = {1, 31}
  Hours = {0, 13}
  MinSecs = {0, 59}
  Weeks = {1, 53}
  Amounts = {"1", "0.5", "01"}
INVARIANT MechContract
INVARIANT MechDenotation
INVARIANT MechTypesStable
CHECK_DEADLOCK FALSE
