SPECIFICATION Spec
CONSTANTS
  MaxLen = 8
  Alphabet = {"0", "1", ",", "-"}
  Cultures = {"en-us"}
  SignOffset = TRUE
INVARIANT MeetsLiteral
CHECK_DEADLOCK FALSE
