SPECIFICATION Spec
CONSTANTS
  WeekOfMonthFixed = TRUE
  Years = {1, 999, 1900, 2000, 2024, 9999}
  ComboYears = {1, 2000, 2023, 2024}
  Days = {1, 2, 10, 28, 29, 30, 31}
  Hours = {0, 1, 11, 12, 13, 23, 24}
  MinSecs = {0, 1, 30, 59}
  Weeks = {1, 9, 10, 52, 53}
  Amounts = {"1", "2", "10", "100", "5000", "0.5", "1.5", "01", ".5", "1.50", "0.25", "12.75", "10.0", "30.00", "100.0", "20.50"}
INVARIANT MechContract
INVARIANT MechDenotation
INVARIANT MechTypesStable
CHECK_DEADLOCK FALSE
