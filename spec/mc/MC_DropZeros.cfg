SPECIFICATION Spec
CONSTANTS
  MaxLen = 6
  Alphabet = {"0", "1", "a", "A", ".", ":"}
INVARIANT SameShape
INVARIANT SameValues
INVARIANT NoLeadingZero
CHECK_DEADLOCK FALSE
