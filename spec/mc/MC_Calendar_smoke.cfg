SPECIFICATION Spec
CONSTANTS
  Lo = 730120
  Hi = 731581
INVARIANT RoundTrip
INVARIANT WeekdayOK
INVARIANT IsoWeekOK
INVARIANT StrOK
INVARIANT MonthOK
CHECK_DEADLOCK FALSE
