SPECIFICATION Spec
CONSTANTS
  RefYears = {2019, 2020}
  MonthFromFirst = TRUE
CHECK_DEADLOCK FALSE
