SPECIFICATION Spec
CONSTANTS
  Threads = {1, 2}
  MaxCalls = 1
  CodeMapFixed = TRUE
  Registered <- MCRegistered
  Family <- MCFamily
  ValidOptions <- MCValid
  Reqs <- MCReqsNone
INVARIANT CacheKeyCorrect
INVARIANT ReturnedForKey
INVARIANT HeldForKey
CHECK_DEADLOCK FALSE
