SPECIFICATION Spec
CONSTANTS
  MaxTokens = 3
  BoundedAfter = FALSE
  Fixed = TRUE
INVARIANT InBounds
INVARIANT TextIsSlice
INVARIANT Disjoint
CHECK_DEADLOCK FALSE
