SPECIFICATION Spec
CONSTANTS
  N = 5
  MaxItems = 3
  DropStraddler = TRUE
  Mech = "tokens"
INVARIANT SweepOK
INVARIANT TokDisjoint
CHECK_DEADLOCK FALSE
