SPECIFICATION Spec
CONSTANTS
  MaxTokens = 5
  Fixed = TRUE
INVARIANT InBounds
INVARIANT TextIsSlice
INVARIANT Disjoint
CHECK_DEADLOCK FALSE
