SPECIFICATION Spec
CONSTANTS
  MaxTokens = 5
  BoundedAfter = TRUE
  Fixed = TRUE
INVARIANT InBounds
INVARIANT TextIsSlice
INVARIANT Disjoint
CHECK_DEADLOCK FALSE
