SPECIFICATION Spec
CONSTANTS
  RefStride = 1
  RefYears = {2019, 2020}
  TimesOfDay = {0}
INVARIANT MeetsContract
CHECK_DEADLOCK FALSE
