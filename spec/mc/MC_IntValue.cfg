INIT MInit
NEXT MNext
CONSTANTS
  Small = 1100
  LimbPool = {0, 1, 5, 13, 20, 21, 90, 100, 101, 120, 999}
  MaxGroups = 3
INVARIANT LexTotal
INVARIANT ValueCorrect
CHECK_DEADLOCK FALSE
