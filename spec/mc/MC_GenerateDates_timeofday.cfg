SPECIFICATION Spec
CONSTANTS
  RefStride = 1
  RefYears = {2019}
  TimesOfDay = {1}
INVARIANT MeetsContract
CHECK_DEADLOCK FALSE
