SPECIFICATION Spec
CONSTANTS
  Threads = {1, 2, 3}
  Requests = {"one third", "twenty", "3.5"}
  ImportingThread = 1
  ParseReadsThreadCtx = TRUE
  MaxObs = 5
INVARIANT ParsePure
CHECK_DEADLOCK FALSE
