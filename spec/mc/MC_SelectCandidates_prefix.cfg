SPECIFICATION Spec
CONSTANTS
  N = 8
  MaxCands = 3
  ExclusiveEnds = FALSE
INVARIANT Disjoint
CHECK_DEADLOCK FALSE
