SPECIFICATION Spec
CONSTANTS
  MaxLen = 5
  Alphabet = {"0", "1", "2", ",", ".", "-"}
  Cultures = {"en-us", "es-es", "es-mx", "de-de"}
  SignOffset = TRUE
INVARIANT MeetsLiteral
CHECK_DEADLOCK FALSE
