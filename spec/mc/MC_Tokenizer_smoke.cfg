SPECIFICATION Spec
CONSTANTS
  MaxLen = 3
  Tokenizers = {"simple", "nwu"}
INVARIANT MechEqualsContract
INVARIANT MechTokensOK
CHECK_DEADLOCK FALSE
