SPECIFICATION Spec
CONSTANTS
  MaxLen = 5
  Alphabet = {"a", "A", "K", "B", "b", "M", "I", " ", "5", "F"}
  KeepLength = TRUE
INVARIANT SameLength
INVARIANT SamePositions
INVARIANT UnitLettersKept
CHECK_DEADLOCK FALSE
