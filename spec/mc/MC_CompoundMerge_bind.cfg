SPECIFICATION Spec
CONSTANTS
  MaxItems = 4
INVARIANT Terminates
INVARIANT Ordered
INVARIANT EachCurrencyOnce
INVARIANT MainPlusFraction
INVARIANT GroupValue
CHECK_DEADLOCK FALSE
