SPECIFICATION Spec
CONSTANTS
  N = 5
  MaxItems = 2
  DropStraddler = TRUE
  Mech = "addto"
INVARIANT SweepOK
INVARIANT TokDisjoint
CHECK_DEADLOCK FALSE
INVARIANT AddDisjoint

