SPECIFICATION Spec
CONSTANTS
  MaxLen = 4
  Tokenizers = {"simple", "nwu"}
INVARIANT MechEqualsContract
INVARIANT MechTokensOK
CHECK_DEADLOCK FALSE
