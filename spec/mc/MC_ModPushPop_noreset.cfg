SPECIFICATION Spec
CONSTANTS
  ResetAround = FALSE
INVARIANT Restored
CHECK_DEADLOCK FALSE
