SPECIFICATION Spec
CONSTANTS
  RefYears = {2019, 2020}
  MonthFromFirst = TRUE
INVARIANT WeekendIsoYear
CHECK_DEADLOCK FALSE
