SPECIFICATION Spec
CONSTANTS
  Ns <- AllNs
  Japanese = FALSE
INVARIANT ValueIsMeant
INVARIANT NothingPending
CHECK_DEADLOCK FALSE
