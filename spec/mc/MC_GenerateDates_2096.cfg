SPECIFICATION Spec
CONSTANTS
  RefStride = 1
  RefYears = {2096}
  TimesOfDay = {0}
INVARIANT MeetsContract
CHECK_DEADLOCK FALSE
