SPECIFICATION Spec
CONSTANTS
  MaxLen = 8
  Alphabet = {"0", "1", ",", "-"}
  Cultures = {"en-us"}
  SignOffset = FALSE
INVARIANT MeetsLiteral
CHECK_DEADLOCK FALSE
