SPECIFICATION Spec
CONSTANTS
  N = 8
  MaxCands = 3
  ExclusiveEnds = TRUE
INVARIANT Disjoint
CHECK_DEADLOCK FALSE
