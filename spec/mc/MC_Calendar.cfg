SPECIFICATION Spec
CONSTANTS
  Lo = 693596
  Hi = 767009
INVARIANT RoundTrip
INVARIANT WeekdayOK
INVARIANT IsoWeekOK
INVARIANT StrOK
INVARIANT MonthOK
CHECK_DEADLOCK FALSE
