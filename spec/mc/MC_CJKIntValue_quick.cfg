SPECIFICATION Spec
CONSTANTS
  Ns <- QuickNs
  Japanese = FALSE
INVARIANT ValueIsMeant
INVARIANT NothingPending
CHECK_DEADLOCK FALSE
