---------------------------- MODULE MC_ModelCache ----------------------------
EXTENDS ModelCache
MCRegistered == {<<"Number", "en-us">>, <<"Number", "fr-fr">>, <<"Number", "zh-cn">>, <<"DateTime", "en-us">>, <<"DateTime", "fr-fr">>, <<"DateTime", "zh-cn">>}
MCValid == [ty \in {"Number", "DateTime"} |-> IF ty = "Number" THEN {0} ELSE {0, 2}]
MCFamily == [ty \in {"Number", "DateTime"} |-> ty]
R(ty, code, opt, fb) == [type |-> ty, code |-> code, opt |-> opt, fb |-> fb]
MCReqs == { R("Number", "en-us", 0, TRUE), R("Number", "FR-fr", 0, FALSE), R("Number", "fr-ca", 0, TRUE),
            R("DateTime", "fr-fr", 2, TRUE), R("DateTime", "fr-fr", 0, TRUE), R("DateTime", "zh-cn", 2, TRUE), R("DateTime", "ko-kr", 0, FALSE),
            R("Number", "xx-yy", 0, TRUE), R("Number", "es-ar", 0, FALSE), R("DateTime", "en-gb", 5, TRUE) }
MCReqsF == MCReqs \cup { R("Number", "f", 0, FALSE), R("Number", "e", 0, TRUE) }
MCReqsQ == { R("Number", "FR-fr", 0, FALSE), R("Number", "fr-ca", 0, TRUE), R("DateTime", "fr-fr", 2, TRUE), R("DateTime", "fr-fr", 0, TRUE),
             R("DateTime", "ko-kr", 0, FALSE), R("Number", "xx-yy", 0, TRUE), R("Number", "f", 0, FALSE), R("DateTime", "en-gb", 5, TRUE) }
MCReqsNone == { R("Number", "<none>", 0, TRUE), R("Number", "fr-fr", 0, TRUE), R("DateTime", "<none>", 2, FALSE), R("DateTime", "fr-ca", 2, TRUE) }
=============================================================================
