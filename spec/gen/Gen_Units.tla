------------------------------- MODULE Gen_Units -------------------------------
(* spec -> code generator for C05: which table entries (by index) are combined with which
   numerals, and which currency pairs with which amounts.  The selection of entries is a
   constant read from IOEnv.VERIF_PICK (all entries in thorough; one seeded surface per
   (culture, type, unit) in quick). *)
EXTENDS Units, Json, IOUtils
Pick == JsonDeserialize(IOEnv.VERIF_PICK)
VARIABLES c, pc
vars == <<c, pc>>
Init == /\ c \in { [kind |-> "single", idx |-> Pick.entries[k], num |-> n] : k \in 1..Len(Pick.entries), n \in {1, 2} }
                 \cup { [kind |-> "single", idx |-> Pick.digits[k][1], num |-> Pick.digits[k][2]] : k \in 1..Len(Pick.digits) }   \* a spelling that contains a digit, with that digit as the numeral ("2 m2")
                 \cup { [kind |-> "compound", idx |-> Pick.pairs[k], amt |-> a] : k \in 1..Len(Pick.pairs), a \in 1..Len(Amounts) }
        /\ pc = "gen"
Emit == pc = "gen" /\ pc' = "done" /\ UNCHANGED c
Next == Emit
Spec == Init /\ [][Next]_vars
=============================================================================
