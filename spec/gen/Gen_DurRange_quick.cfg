SPECIFICATION Spec
CONSTANTS
  DurNs = {1, 2, 10, 59, 60, 100, 999, 1000, 4999, 5000}
  DatePairs <- QPairs
  TimePairs <- QTimePairs
  DateTimePairs <- QDTPairs
  RefDay = 737128
CHECK_DEADLOCK FALSE
