----------------------------- MODULE Gen_DateAbs -----------------------------
EXTENDS DateAbs
(* boundary dates: first and last day of every month, plus leap-day neighbourhoods *)
BoundaryDates(years) == { t \in years \X (1..12) \X (1..31) : t[3] \in {1, DaysInMonth(t[1], t[2])} \/ (t[2] = 2 /\ t[3] \in {28, 29} /\ t[3] <= DaysInMonth(t[1], t[2])) \/ (t[2] \in {3, 11} /\ t[3] \in {5, 12, 13, 22, 23}) }
AllDates(years) == { t \in years \X (1..12) \X (1..31) : t[3] <= DaysInMonth(t[1], t[2]) }
QDates == BoundaryDates({1900, 2000, 2024, 2099}) \cup { <<1999, 12, 31>>, <<2016, 11, 7>>, <<1987, 3, 31>>, <<2010, 10, 10>> }
TDates == AllDates({2024}) \cup BoundaryDates({1900, 1999, 2000, 2038, 2099})
QRefs == {"1950-01-01T00:00:00", "2016-11-07T12:00:00"}
TRefs == QRefs \cup {"2024-02-29T23:59:00"}
AllCases == TLCEval(Cases)
VARIABLES c, pc
vars == <<c, pc>>
Init == c \in AllCases /\ pc = "gen"
Emit == pc = "gen" /\ pc' = "done" /\ UNCHANGED c
Next == Emit
Spec == Init /\ [][Next]_vars
RefIndependent == \A a, b \in AllCases : (a.text = b.text /\ a.culture = b.culture) => a.vals = b.vals
=============================================================================
