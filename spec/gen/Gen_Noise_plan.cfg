SPECIFICATION Spec
CONSTANTS
  MaxTokens = 4
  Plan <- Plan4
CHECK_DEADLOCK FALSE
