SPECIFICATION Spec
CONSTANTS
  V4Octets = {0, 9, 10, 99, 100, 199, 200, 249, 250, 255}
  V4Full = TRUE
CHECK_DEADLOCK FALSE
