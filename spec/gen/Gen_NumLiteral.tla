---------------------------- MODULE Gen_NumLiteral ----------------------------
EXTENDS NumLiteral
(* boundary digit strings per length: all nines, 1 and zeros, 1 zeros 1, fives, 123..., 9 zeros 5 *)
RECURSIVE Rep(_, _)
Rep(d, n) == IF n = 0 THEN "" ELSE d \o Rep(d, n - 1)
Pat(L) == { Rep("9", L), "1" \o Rep("0", L - 1), Rep("5", L), SubSeq("123456789012345", 1, L) }
          \cup (IF L >= 2 THEN { "1" \o Rep("0", L - 2) \o "1", "9" \o Rep("0", L - 2) \o "5" } ELSE {"0", "7"})
QInts == UNION { Pat(L) : L \in {1, 3, 4, 6, 7, 10, 15} }
TInts == UNION { Pat(L) : L \in 1..15 }
QFracs == {"", "5", "50", "125", "12345678901234", "123456789012345", "000123456789012", "100000000000001",
           "00000000123456789012345", "0000000000000000125", "00000000000000000000905" }
TFracs == {"", "5", "05", "50", "001", "125", "999"} \cup { SubSeq("123456789012345", 1, L) : L \in 8..15 }
          \cup { "000123456789012", "100000000000001", "000000000000001", "999999999999999", "00000000123456789012345",
               "0000000000000000125", "00000000000000000000905", "000000000000000123456789012345" }
(* at most 15 significant digits in total (leading zeros of 0.000ddd do not count); grouping only from 4 integer digits *)
Keep(c) == TRUE
AllCases == TLCEval({ c \in Cases : SigDigits(c.num[2], c.num[3]) <= 15 })
Filter(c) == ~("-grouped0" = SubSeq(c.shape, 4, 12)) /\ c.num # <<"-", "0", "">>
VARIABLES c, pc
vars == <<c, pc>>
Init == c \in { x \in AllCases : Filter(x) } /\ pc = "gen"
Emit == pc = "gen" /\ pc' = "done" /\ UNCHANGED c
Next == Emit
Spec == Init /\ [][Next]_vars
=============================================================================
