SPECIFICATION Spec
CONSTANTS
  MonthDays <- QMD
  RefDaysFor <- QRefsFor
  WeekRefDays <- WRefs
  RefTimes <- OTimes
  Layouts = {1, 2}
  OtherCultures = {"fr-fr", "es-es", "pt-br", "de-de", "it-it", "nl-nl", "zh-cn"}
  OtherMonthDays <- QOtherMD
CHECK_DEADLOCK FALSE
