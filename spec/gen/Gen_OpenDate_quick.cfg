SPECIFICATION Spec
CONSTANTS
  MonthDays <- QMD
  RefDaysFor <- QRefsFor
  WeekRefDays <- WRefs
  RefTimes <- OTimes
  Layouts = {1, 2}
CHECK_DEADLOCK FALSE
