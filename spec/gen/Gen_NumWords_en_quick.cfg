SPECIFICATION Spec
CONSTANTS
  Small = 1100
  LimbPool = {0, 1, 5, 13, 20, 21, 90, 100, 101, 120, 999}
  MaxGroups = 5
CHECK_DEADLOCK FALSE
