SPECIFICATION Spec
CONSTANTS
  RefDays = {730119, 730120, 730121, 730122, 730123, 730124, 730125, 737059, 737060, 737061, 737062, 737063, 737064, 737065, 737424, 737425, 737426, 737427, 737428, 737429, 737430, 711858, 763125, 736694, 736695, 736696}
  DurAmounts = {"1", "2", "7", "10", "59", "60", "100", "999", "5000", "0.5", "1.5", "0.25", "12.75"}
  RangeYears = {1950, 1999, 2000, 2019, 2020, 2024, 2089}
  DateRanges <- T_DateRanges
  TimeRanges <- T_TimeRanges
  MonthDays <- T_MonthDays
  Times <- T_Times
  MaxCands = 2
  MaxDateC = 2
  MaxTimeC = 1
CHECK_DEADLOCK FALSE
