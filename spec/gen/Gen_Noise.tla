------------------------------ MODULE Gen_Noise ------------------------------
(* Noise queries for C01 / C12: a behaviour appends tokens from a closed pool (words of
   supported spec inputs, numerals, punctuation, full-width and CJK forms, code points whose
   case mapping is irregular).  Exhaustive up to MaxTokens; `-simulate` walks beyond. *)
EXTENDS Integers, Sequences, FiniteSets, TLC

CONSTANTS MaxTokens,
          Plan       \* <<>> = any token at any position; otherwise the set of pool indices allowed at each position

Pool == <<"twenty", "one", "3.5", "1,000", "$", "dollars", "and", "cents", "%", "percent", "kg", "°C", "tomorrow", "at", "5pm", "May", "3rd",
          "2019-03-10", "12/31", "next", "week", "from", "to", "192.168.0.1", "::1", "a@b.com", "www.bing.com", "#tag", "@me", "yes", "no", "ok",
          "１２３", "５", "，", "．", "（", "）", "％", "：", "三", "十", "万", "点", "五", "月", "日", "明天", "三点", "美元", "公斤", "元",
          "İ", "ẞ", "ﬁ", "K", "ß", "é", "Ω", "-", "–", "(", ")", ".", ",", "!", "?", "\"", "'", "the", "of", "I", "am", "years", "old", "since",
          "before", "around", "half", "dozen", "first", "1st", "zwei", "deux", "dos", "uno", "mil", "euros", "às", "08:30", "T", "P", "x", "M", "G", "B", "MB", "kB">>
Spaces == <<" ", "", "  ", " ">>

(* TLC 1.8 mangles non-Latin-1 strings that are created in successor states and then pass through
   its state queue, so the state holds token indices only; the harness reads the pool from the
   POOL line printed below and joins the tokens (Spaces[sp[k]] before token k > 1). *)
ASSUME PrintT(<<"POOL", Pool, Spaces>>)

VARIABLES toks, sp, pc
vars == <<toks, sp, pc>>
Init == toks = <<>> /\ sp = <<>> /\ pc = "grow"
IdxOf(w) == CHOOSE k \in 1..Len(Pool) : Pool[k] = w
Idx(ws) == { IdxOf(w) : w \in ws }
NoPlan == <<>>
(* a case-irregular letter, a unit letter the number models protect from lower-casing, then one or two entities: the
   offsets of the entities must survive both pre-processing steps together *)
Plan4 == << Idx({"İ", "ẞ", "ﬁ", "ß"}), Idx({"K", "M", "G", "B", "MB", "kB"}),
            Idx({"twenty", "3.5", "1,000", "dollars", "kg", "percent", "5pm", "and"}), Idx({"3.5", "dollars", "years", "１２３"}) >>
Add(k, s) == /\ pc = "grow" /\ Len(toks) < MaxTokens
             /\ (Plan = <<>> \/ (Len(toks) < Len(Plan) /\ k \in Plan[Len(toks) + 1] /\ s = 1))
             /\ toks' = Append(toks, k)
             /\ sp' = Append(sp, s)
             /\ UNCHANGED pc
Stop == pc = "grow" /\ Len(toks) > 0 /\ (Plan = <<>> \/ Len(toks) >= 3) /\ pc' = "done" /\ UNCHANGED <<toks, sp>>
Next == (\E k \in 1..Len(Pool), s \in {1, 2} : Add(k, s)) \/ Stop
Spec == Init /\ [][Next]_vars
=============================================================================
