SPECIFICATION Spec
CONSTANTS
  MaxTokens = 12
CHECK_DEADLOCK FALSE
