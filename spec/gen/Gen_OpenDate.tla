----------------------------- MODULE Gen_OpenDate -----------------------------
EXTENDS OpenDate
AllMD == { md \in (1..12) \X (1..31) : md[2] <= DaysInMonth(2000, md[1]) }
TMD == { md \in AllMD : md[2] \in {1, 2, 10, 15, 20, 28, 29, 30, 31} }
QMD == { md \in AllMD : md[2] \in {1, 15, 29, 30, 31} \/ md = <<3, 5>> \/ md = <<2, 28>> }
(* references around the day itself (in a leap and a non-leap year), year ends, leap-day neighbourhood, century non-leap year *)
Near(md, years) == UNION { { Ordinal(y, md[1], IF md[2] <= DaysInMonth(y, md[1]) THEN md[2] ELSE DaysInMonth(y, md[1])) + k : k \in {-1, 0, 1} } : y \in years }
Fixed == { Ordinal(2019, 1, 1), Ordinal(2019, 12, 31), Ordinal(2020, 2, 28), Ordinal(2020, 2, 29), Ordinal(2020, 3, 1), Ordinal(2021, 2, 28), Ordinal(2021, 3, 1) }
(* 29 February: references whose neighbouring leap years straddle a century year (2000 is leap, 1900 and 2100 are not) *)
LeapRefs == { Ordinal(1999, 7, 1), Ordinal(2000, 2, 29), Ordinal(2001, 3, 1), Ordinal(2003, 12, 31), Ordinal(1952, 2, 29), Ordinal(2088, 3, 1) }
QRefsFor(md) == Near(md, {2019, 2020}) \cup Fixed \cup (IF md = <<2, 29>> THEN LeapRefs ELSE {})
TRefsFor(md) == Near(md, {1950, 2019, 2020, 2087, 2088}) \cup Fixed \cup (IF md = <<2, 29>> THEN LeapRefs ELSE {}) \cup { Ordinal(2089, 12, 31), Ordinal(1952, 2, 29), Ordinal(2000, 2, 29), Ordinal(2001, 3, 1), Ordinal(1999, 7, 1) }
WRefs == { Ordinal(2019, 3, 4) + k : k \in 0..13 } \cup { Ordinal(2021, 12, 27) + k : k \in 0..9 }   \* two weeks, and a turn of the year
QOtherMD == {<<3, 5>>, <<12, 31>>, <<1, 1>>, <<2, 29>>, <<5, 31>>}
OTimes == {<<0, 0, 0>>, <<15, 0, 0>>}
AllCases == TLCEval(Cases)
VARIABLES c, pc
vars == <<c, pc>>
Init == c \in AllCases /\ pc = "gen"
Emit == pc = "gen" /\ pc' = "done" /\ UNCHANGED c
Next == Emit
Spec == Init /\ [][Next]_vars
=============================================================================
