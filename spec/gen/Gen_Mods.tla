------------------------------- MODULE Gen_Mods -------------------------------
(* Date-time expressions under one or two modifiers (before / after / since / until, around /
   about), alone and after another entity: inputs for the span (C01), overlap (C12) and
   resolution-shape (C11) invariants; no expectation of their own. *)
EXTENDS Integers, Sequences, FiniteSets, TLC
Mods1 == <<"before", "after", "since", "until", "around", "about", "by", "from", "as early as", "no later than">>
Mods2 == <<"", "around", "about", "approximately">>
Exprs == <<"3pm", "june 5", "yesterday", "2016-11-07", "monday", "5:30 am", "next week", "2018", "the end of the month", "3 days ago", "april 25-31", "feb 20-29", "june 28 - 31">>
Pres == <<"", "I have been sick ", "call me on friday ", "see you tomorrow, ", "  ">>
(* an entity, a suffix modifier ("or after", "or later", "and after") and possibly another entity *)
Suffixes == <<" or after", " or later", " and after", " or  later">>
Tails == <<"", " May 5th", " next week", " 3pm", " 2019", " xyz">>
Heads == <<"in 2018", "tomorrow", "on 1/1/2016", "monday", "june 5">>
VARIABLES c, pc
vars == <<c, pc>>
Init == /\ c \in { [text |-> Pres[p] \o Mods1[a] \o (IF Mods2[b] = "" THEN "" ELSE " " \o Mods2[b]) \o " " \o Exprs[x], culture |-> "en-us", ref |-> "2019-03-10T12:00:00"]
                   : p \in 1..Len(Pres), a \in 1..Len(Mods1), b \in 1..Len(Mods2), x \in 1..Len(Exprs) }
                 \cup { [text |-> Pres[p] \o Exprs[x], culture |-> "en-us", ref |-> "2019-03-10T12:00:00"] : p \in 1..Len(Pres), x \in 1..Len(Exprs) }
                 \cup { [text |-> Heads[h] \o Suffixes[q] \o Tails[t], culture |-> "en-us", ref |-> "2019-03-10T12:00:00"] : h \in 1..Len(Heads), q \in 1..Len(Suffixes), t \in 1..Len(Tails) }
        /\ pc = "gen"
Emit == pc = "gen" /\ pc' = "done" /\ UNCHANGED c
Next == Emit
Spec == Init /\ [][Next]_vars
=============================================================================
