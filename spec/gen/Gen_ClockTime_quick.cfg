SPECIFICATION Spec
CONSTANTS
  Hours24 = {0, 1, 2, 3, 4, 5, 6, 7, 8, 9, 10, 11, 12, 13, 14, 15, 16, 17, 18, 19, 20, 21, 22, 23}
  Minutes = {0, 1, 5, 11, 15, 30, 45, 59}
  Seconds = {0, 30, 59}
  Hours12 = {1, 2, 3, 4, 5, 6, 7, 8, 9, 10, 11, 12}
  RefDay = 737128
CHECK_DEADLOCK FALSE
