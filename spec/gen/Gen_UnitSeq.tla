------------------------------ MODULE Gen_UnitSeq ------------------------------
(* Sentences with several amounts whose units may attach to the number before or after them
   (currency codes are both prefix and suffix units): inputs for the overlap (C12) and span (C01)
   invariants of the number-with-unit models.  State = template index and two unit indices. *)
EXTENDS Integers, Sequences, FiniteSets, TLC
Units == <<"hkd", "btc", "us$", "usd", "eur", "$", "dollars", "cents", "kg", "km", "m", "dolares", "euros", "reais">>
Tpl(k, a, b) == CASE k = 1 -> "it costs 10.5 " \o a \o " 50 today and 20 " \o b \o " tomorrow"
                  [] k = 2 -> a \o " 10 20 " \o b
                  [] k = 3 -> "10 " \o a \o " " \o b \o " 20 and 5 " \o a
                  [] k = 4 -> "15 " \o a \o " 50 " \o b \o " 7"
                  [] k = 5 -> "pay 3 " \o a \o " and 4 " \o b \o " 5 " \o a \o " 6"
ASSUME PrintT(<<"UNITS", Units>>)
VARIABLES c, pc
vars == <<c, pc>>
Init == /\ c \in { [text |-> Tpl(k, Units[a], Units[b]), culture |-> cul] : k \in 1..5, a \in 1..Len(Units), b \in 1..Len(Units), cul \in {"en-us", "es-es", "pt-br"} }
        /\ pc = "gen"
Emit == pc = "gen" /\ pc' = "done" /\ UNCHANGED c
Next == Emit
Spec == Init /\ [][Next]_vars
=============================================================================
