------------------------------ MODULE Gen_UnitSeq ------------------------------
(* Sentences with several amounts whose units may attach to the number before or after them
   (currency codes are both prefix and suffix units): inputs for the overlap (C12) and span (C01)
   invariants of the number-with-unit models.  State = template index and two unit indices. *)
EXTENDS Integers, Sequences, FiniteSets, TLC
Units == <<"hkd", "btc", "us$", "usd", "eur", "$", "dollars", "cents", "kg", "km", "m", "dolares", "euros", "reais">>
Tpl(k, a, b) == CASE k = 1 -> "it costs 10.5 " \o a \o " 50 today and 20 " \o b \o " tomorrow"
                  [] k = 2 -> a \o " 10 20 " \o b
                  [] k = 3 -> "10 " \o a \o " " \o b \o " 20 and 5 " \o a
                  [] k = 4 -> "15 " \o a \o " 50 " \o b \o " 7"
                  [] k = 5 -> "pay 3 " \o a \o " and 4 " \o b \o " 5 " \o a \o " 6"
                  [] k = 6 -> "10 " \o a \o " 20 " \o a \o " 30 " \o b                     \* three and four chained amounts
                  [] k = 7 -> "10 " \o a \o " 20 " \o b \o " 30 " \o a \o " 40"
(* zh-cn: numeral + unit followed by the half word (三斤半) and again by a unit or an amount; written with the {hex}
   escapes the harness decodes *)
ZhNum == <<"{4e09}", "{4e94}", "{4e24}", "3">>          \* 三 五 两 3
ZhUnit == <<"{65a4}", "{7c73}", "{5143}", "{516c}{65a4}">> \* 斤 米 元 公斤
Half == "{534a}"
ZhTpl(k, n, u, v) == CASE k = 1 -> n \o u \o Half \o v
                       [] k = 2 -> n \o u \o Half
                       [] k = 3 -> n \o u \o Half \o n \o v
                       [] k = 4 -> n \o u \o Half \o " " \o n \o v \o Half
ASSUME PrintT(<<"UNITS", Units>>)
VARIABLES c, pc
vars == <<c, pc>>
Init == /\ c \in { [text |-> Tpl(k, Units[a], Units[b]), culture |-> cul] : k \in 1..7, a \in 1..Len(Units), b \in 1..Len(Units), cul \in {"en-us", "es-es", "pt-br"} }
                 \cup { [text |-> ZhTpl(k, ZhNum[n], ZhUnit[u], ZhUnit[v]), culture |-> "zh-cn"] : k \in 1..4, n \in 1..Len(ZhNum), u \in 1..Len(ZhUnit), v \in 1..Len(ZhUnit) }
        /\ pc = "gen"
Emit == pc = "gen" /\ pc' = "done" /\ UNCHANGED c
Next == Emit
Spec == Init /\ [][Next]_vars
=============================================================================
