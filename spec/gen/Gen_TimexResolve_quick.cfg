SPECIFICATION Spec
CONSTANTS
  RefDays = {730119, 730120, 730121, 730122, 730123, 730124, 730125, 737059, 737060, 737061, 737424, 737425, 737426, 737427, 711858, 763125}
  DurAmounts = {"1", "2", "10", "100", "5000", "0.5", "1.5"}
  RangeYears = {1950, 2000, 2019, 2020, 2089}
  DateRanges <- Q_DateRanges
  TimeRanges <- Q_TimeRanges
  MonthDays <- Q_MonthDays
  Times <- Q_Times
  MaxCands = 2
  MaxDateC = 2
  MaxTimeC = 1
CHECK_DEADLOCK FALSE
