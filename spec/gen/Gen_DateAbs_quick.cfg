SPECIFICATION Spec
CONSTANTS
  Dates <- QDates
  Refs <- QRefs
  EnLayouts = {1, 2, 3, 4, 5, 6, 7, 8, 9, 10}
  OtherCultures = {"fr-fr", "es-es", "pt-br", "de-de", "it-it", "nl-nl", "zh-cn"}
  Carriers = {1, 2}
CHECK_DEADLOCK FALSE
