SPECIFICATION Spec
CONSTANTS
  Ns <- TNs
  Cultures = {"es-es", "fr-fr", "de-de", "zh-cn", "ja-jp"}
CHECK_DEADLOCK FALSE
