----------------------------- MODULE Gen_BadDates -----------------------------
(* Date-shaped near misses for C11: non-existent calendar dates and clock times in the layouts
   of C06 / C07.  The contract (Resolution.tla) demands that whatever entity comes back carries
   either a valid value or 'not resolved', never an invalid date. *)
EXTENDS DTCommon
BadYMD == { t \in {1900, 2019, 2020, 2100} \X (1..13) \X {0, 29, 30, 31, 32} :
              ~(t[2] <= 12 /\ t[3] >= 1 /\ t[3] <= DaysInMonth(t[1], IF t[2] <= 12 THEN t[2] ELSE 1)) }
MN(m) == IF m <= 12 THEN MonthNameEn[m] ELSE "Smarch"
Texts(t) == { DateStr(t[1], t[2], t[3]), ToString(t[2]) \o "/" \o ToString(t[3]) \o "/" \o ToString(t[1]),
              MN(t[2]) \o " " \o ToString(t[3]) \o ", " \o ToString(t[1]), ToString(t[3]) \o " " \o MN(t[2]) \o " " \o ToString(t[1]),
              MN(t[2]) \o " " \o ToString(t[3]), "from " \o DateStr(t[1], t[2], t[3]) \o " to " \o DateStr(t[1] + 1, 1, 1),
              DateStr(t[1], t[2], t[3]) \o " at 25:00",
              ToString(t[2]) \o "/" \o ToString(t[3]) \o "/" \o ToString(t[1]) \o " 8am to 9am", MN(t[2]) \o " " \o ToString(t[3]) \o " in the morning",
              ToString(t[2]) \o "/" \o ToString(t[3]) \o "/" \o ToString(t[1]) \o " at 8:30am", MN(t[2]) \o " " \o ToString(t[3]) \o " from 2pm to 4:30pm",
              "from " \o MN(t[2]) \o " " \o ToString(t[3]) \o " 10pm to 2am" }
BadTimes == {"24:01", "25:00", "12:60", "23:59:60", "13 pm", "0 am", "99:99", "12:30:99 pm"}
Cases == { [text |-> x, culture |-> cul, ref |-> "2019-03-10T12:00:00"] : x \in (UNION { Texts(t) : t \in BadYMD }) \cup BadTimes, cul \in {"en-us"} }
         \cup { [text |-> Pad2(t[3]) \o "/" \o Pad2(t[2]) \o "/" \o ToString(t[1]), culture |-> cul, ref |-> "2019-03-10T12:00:00"] : t \in BadYMD, cul \in {"fr-fr", "es-es", "de-de", "pt-br", "it-it", "nl-nl"} }
AllCases == TLCEval(Cases)
VARIABLES c, pc
vars == <<c, pc>>
Init == c \in AllCases /\ pc = "gen"
Emit == pc = "gen" /\ pc' = "done" /\ UNCHANGED c
Next == Emit
Spec == Init /\ [][Next]_vars
=============================================================================
