--------------------------- MODULE Gen_SeqEntities ---------------------------
EXTENDS SeqEntities
AllCases == TLCEval(Cases)
VARIABLES c, pc
vars == <<c, pc>>
Init == c \in AllCases /\ pc = "gen"
Emit == pc = "gen" /\ pc' = "done" /\ UNCHANGED c
Next == Emit
Spec == Init /\ [][Next]_vars
=============================================================================
