SPECIFICATION Spec
CONSTANTS
  Prefixes = {"", "(", "well ", "so I said ", "hmm... ", "please tell them ", "  "}
  Suffixes = {"", "!", ".", "?", ")", " please", " thanks a lot", ", right", " ", "   "}
  NeutralTokens = {"well", "please", "thanks", "so", "I", "said", "hmm", "yesterday", "nobody", "okay", "42", "!"}
  MaxNeutral = 3
  Separators = {" ", ", ", " and then "}
CHECK_DEADLOCK FALSE
