-------------------------- MODULE Gen_NumWords_intl --------------------------
EXTENDS NumWords_intl
QNs == (0..130) \cup { n \in 131..9999 : n % 100 \in {0, 1, 10, 11, 21, 71, 80, 99} /\ (n \div 100) \in {1, 2, 5, 9, 10, 11, 20, 21, 70, 99} } \cup {10000, 10001, 20000, 90909}
TNs == (0..9999) \cup {10000, 10001, 10010, 10100, 11000, 20000, 50500, 90909, 99999}
AllCases == TLCEval(Cases)
VARIABLES c, pc
vars == <<c, pc>>
Init == c \in AllCases /\ pc = "gen"
Emit == pc = "gen" /\ pc' = "done" /\ UNCHANGED c
Next == Emit
Spec == Init /\ [][Next]_vars
=============================================================================
