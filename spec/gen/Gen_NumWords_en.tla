--------------------------- MODULE Gen_NumWords_en ---------------------------
EXTENDS NumWords_en
AllCases == TLCEval({ c \in Cases : c.text # "" /\ ~(c.api = "ordinal" /\ c.expect = "0") })
VARIABLES c, pc
vars == <<c, pc>>
Init == c \in AllCases /\ pc = "gen"
Emit == pc = "gen" /\ pc' = "done" /\ UNCHANGED c
Next == Emit
Spec == Init /\ [][Next]_vars
=============================================================================
