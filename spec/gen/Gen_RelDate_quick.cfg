SPECIFICATION Spec
CONSTANTS
  RefDays <- QDays
  RefTimes <- QTimes
  Ns = {1, 7, 5000}
CHECK_DEADLOCK FALSE
