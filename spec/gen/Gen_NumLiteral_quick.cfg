SPECIFICATION Spec
CONSTANTS
  IntDigits <- QInts
  Fracs <- QFracs
  Cultures = {"en-us", "es-es", "es-mx", "fr-fr", "pt-br", "de-de", "it-it", "nl-nl", "zh-cn", "ja-jp"}
CHECK_DEADLOCK FALSE
