SPECIFICATION Spec
CONSTANTS
  Ns <- QNs
  Cultures = {"es-es", "fr-fr", "de-de", "zh-cn", "ja-jp", "pt-br", "it-it", "nl-nl"}
CHECK_DEADLOCK FALSE
