----------------------------- MODULE Gen_DurRange -----------------------------
EXTENDS DurRange
BoundaryDays == { Ordinal(2016, 11, 7), Ordinal(2016, 11, 8), Ordinal(2016, 12, 31), Ordinal(2017, 1, 1), Ordinal(2017, 1, 9), Ordinal(2019, 2, 28), Ordinal(2019, 3, 1),
                  Ordinal(2020, 2, 28), Ordinal(2020, 2, 29), Ordinal(2020, 3, 1), Ordinal(1999, 12, 31), Ordinal(2000, 1, 1), Ordinal(2024, 1, 31), Ordinal(2024, 3, 31) }
QPairs == { p \in BoundaryDays \X BoundaryDays : p[1] < p[2] /\ p[2] - p[1] < 1200 /\ (p[1] + p[2]) % 3 = 0 }
TPairs == { p \in BoundaryDays \X BoundaryDays : p[1] < p[2] }
QTimePairs == { <<13, 0, 15, 30>>, <<13, 0, 13, 1>>, <<9, 5, 23, 59>>, <<15, 0, 17, 30>>, <<0, 30, 11, 59>>, <<14, 15, 22, 45>>, <<1, 0, 3, 0>> }
TTimePairs == QTimePairs \cup { <<h1, m, h2, 59 - m>> : h1 \in {0, 9, 13}, h2 \in {14, 20, 23}, m \in {0, 29} }
D0 == Ordinal(2018, 1, 5)
(* calibration: both endpoints on the same day are read as a date plus a time range (two entities); the statement
   speaks of endpoints that are dates or clock times, so date-time pairs are generated on different days only *)
QDTPairs == { <<D0, 15, 0, D0 + k, h2, m2>> : k \in {1, 2, 3}, h2 \in {15, 18}, m2 \in {0, 20} }
TDTPairs == QDTPairs \cup { <<Ordinal(2019, 12, 31), 23, 0, Ordinal(2020, 1, 1) + k, 13, m2>> : k \in {0, 1, 59}, m2 \in {0, 1, 59} }
            \cup { <<Ordinal(2020, 2, 28), 13, 30, Ordinal(2020, 3, 1), 13, m2>> : m2 \in {29, 30, 31} }
AllCases == TLCEval(Cases)
VARIABLES c, pc
vars == <<c, pc>>
Init == c \in AllCases /\ pc = "gen"
Emit == pc = "gen" /\ pc' = "done" /\ UNCHANGED c
Next == Emit
Spec == Init /\ [][Next]_vars
=============================================================================
