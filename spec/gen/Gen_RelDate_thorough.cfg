SPECIFICATION Spec
CONSTANTS
  RefDays <- TDays
  RefTimes <- TTimes
  Ns = {1, 2, 7, 30, 365, 4999, 5000}
CHECK_DEADLOCK FALSE
