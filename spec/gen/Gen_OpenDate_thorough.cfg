SPECIFICATION Spec
CONSTANTS
  MonthDays <- AllMD
  RefDaysFor <- TRefsFor
  WeekRefDays <- WRefs
  RefTimes <- OTimes
  Layouts = {1, 2, 3, 4}
CHECK_DEADLOCK FALSE
