SPECIFICATION Spec
CONSTANTS
  MonthDays <- TMD
  RefDaysFor <- TRefsFor
  WeekRefDays <- WRefs
  RefTimes <- OTimes
  Layouts = {1, 2, 3, 4}
  OtherCultures = {"fr-fr", "es-es", "pt-br", "de-de", "it-it", "nl-nl", "zh-cn"}
  OtherMonthDays <- QMD
CHECK_DEADLOCK FALSE
