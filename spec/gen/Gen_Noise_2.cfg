SPECIFICATION Spec
CONSTANTS
  MaxTokens = 2
  Plan <- NoPlan
CHECK_DEADLOCK FALSE
