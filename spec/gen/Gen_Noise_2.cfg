SPECIFICATION Spec
CONSTANTS
  MaxTokens = 2
CHECK_DEADLOCK FALSE
