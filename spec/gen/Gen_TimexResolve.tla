-------------------------- MODULE Gen_TimexResolve --------------------------
(* spec -> code generator for C15: every scenario of TimexResolve.tla becomes one call. *)
EXTENDS TimexResolve


(* cfg files cannot write tuples: the tuple-valued constants are named here *)
Q_DateRanges == {<<737060, 737061>>, <<737060, 737067>>, <<737049, 737074>>, <<737394, 737425>>, <<737059, 737425>>, <<737425, 737456>>, <<736573, 736664>>}   \* the last one: 2017-09-01 + P3M, ends on 1 December
T_DateRanges == Q_DateRanges \cup {<<737029, 737394>>, <<736982, 737074>>}   \* + P1Y ending on 1 December, P3M across a turn of the year
Q_TimeRanges == {<<9, 12>>, <<8, 18>>, <<14, 16>>}
T_TimeRanges == Q_TimeRanges \cup {<<0, 6>>, <<11, 15>>}
Q_MonthDays == {<<3, 12>>, <<12, 31>>, <<1, 1>>, <<2, 29>>}
T_MonthDays == Q_MonthDays \cup {<<2, 28>>, <<7, 4>>, <<2, 29>>}
Q_Times == {<<10, 0, 0>>, <<15, 30, 0>>, <<0, 0, 0>>, <<9, 0, 7>>}
T_Times == Q_Times \cup {<<23, 0, 0>>, <<8, 15, 45>>}

AllCases == TLCEval(ResolveCases \cup EvalCases \cup EvalOrderCases)
VARIABLES c, pc, call
vars == <<c, pc, call>>

Init == c \in AllCases /\ pc = "gen" /\ call = <<>>
Render == /\ pc = "gen"
          /\ pc' = "done"
          /\ call' = IF c.k = "eval"
                     THEN (IF Has(c, "order")
                           THEN [api |-> "timex_evaluate", candidates |-> CandTexts(c), constraints |-> c.order]
                           ELSE [api |-> "timex_evaluate", candidates |-> CandTexts(c), constraints |-> ConstraintTexts(c)])
                     ELSE [api |-> "timex_resolve", timexes |-> {c.timex}, ref |-> RefStr(c)]
          /\ UNCHANGED c
Next == Render
Spec == Init /\ [][Next]_vars
=============================================================================
