------------------------------ MODULE Gen_Ranges ------------------------------
(* Range expressions with a date word and two clock times, including pairs that wrap past midnight, coincide or are
   reversed, and date pairs that are reversed or equal: inputs for the TIMEX-triple rule of C10 (3) and for the
   resolution-shape rules of C11; no expectation of their own. *)
EXTENDS Integers, Sequences, FiniteSets, TLC
Days == <<"tomorrow", "today", "2019-06-13", "6/13/2019", "june 13", "friday", "december 31", "2020-02-29">>
Times == << <<"10pm", "2am">>, <<"8am", "9am">>, <<"11:30pm", "12:15am">>, <<"3pm", "3pm">>, <<"9am", "8am">>, <<"22:00", "02:00">>, <<"1pm", "11:59pm">> >>
DatePairs == << <<"2019-06-13", "2019-06-10">>, <<"2019-06-13", "2019-06-13">>, <<"december 31", "january 1">>, <<"6/13/2019", "6/14/2018">>, <<"tomorrow", "yesterday">>, <<"friday", "monday">> >>
Forms(d, t) == { "from " \o d \o " " \o t[1] \o " to " \o t[2], d \o " " \o t[1] \o " to " \o t[2], d \o " from " \o t[1] \o " to " \o t[2],
                 d \o " between " \o t[1] \o " and " \o t[2], "from " \o t[1] \o " to " \o t[2] \o " " \o d, t[1] \o "-" \o t[2] \o " " \o d,
                 "from " \o d \o " " \o t[1] \o " until " \o t[2] }
DForms(p) == { "from " \o p[1] \o " to " \o p[2], "between " \o p[1] \o " and " \o p[2], p[1] \o " - " \o p[2], "from " \o p[1] \o " until " \o p[2] }
(* zh-cn clock-time ranges given to the second (borrow from minutes and hours, turn of the day), alone and after a date;
   written with the {hex} escapes the harness decodes: {5230} = 到, {4ece} = 从 *)
ZhTimes == << <<"17:20:40", "18:20:10">>, <<"17:55:23", "18:33:02">>, <<"9:05:50", "9:06:10">>, <<"23:59:59", "00:00:01">>, <<"8:00:00", "10:00:00">>, <<"17:20:10", "18:20:40">> >>
ZhForms(t) == { t[1] \o "-" \o t[2], t[1] \o "{5230}" \o t[2], "{4ece}" \o t[1] \o "{5230}" \o t[2], "2019{5e74}1{6708}3{65e5}" \o t[1] \o "{5230}" \o t[2] }
(* an entity followed by one whose own text begins with a modifier word ({540e} = 后 after, {524d} = 前 before): the word
   belongs to the second entity, not to the first as a suffix *)
ZhAdjacent == {"5 {5c0f}{65f6} {540e}1{5e74}", "5{5c0f}{65f6} {540e}1{5e74}", "{4e09}{5929} {524d}{5929}", "{660e}{5929} {540e}{5929}", "2019{5e74}2{6708} {540e}1{5e74}"}
ZhTexts == UNION { ZhForms(ZhTimes[j]) : j \in 1..Len(ZhTimes) } \cup ZhAdjacent
Texts == UNION { Forms(Days[i], Times[j]) : i \in 1..Len(Days), j \in 1..Len(Times) } \cup UNION { DForms(DatePairs[k]) : k \in 1..Len(DatePairs) }
VARIABLES c, pc
vars == <<c, pc>>
Init == c \in { [text |-> x, culture |-> "en-us", ref |-> r] : x \in Texts, r \in {"2019-06-12T12:00:00", "2019-12-31T23:30:00"} }
             \cup { [text |-> x, culture |-> "zh-cn", ref |-> "2019-06-12T12:00:00"] : x \in ZhTexts } /\ pc = "gen"
Emit == pc = "gen" /\ pc' = "done" /\ UNCHANGED c
Next == Emit
Spec == Init /\ [][Next]_vars
=============================================================================
