----------------------------- MODULE Gen_Routing -----------------------------
(* spec -> code generator for C17: culture strings x option choice x fallback flag (crossed with
   every registered model type by the harness). *)
EXTENDS Integers, Sequences, FiniteSets, TLC, RTStrings

SupportedCodes == {"en-us", "en-*", "nl-nl", "zh-cn", "fr-fr", "it-it", "ja-jp", "ko-kr", "pt-br", "es-es", "es-mx", "tr-tr", "de-de"}
UpperCh(c) == LET k == IndexOf(LowerAZ, c) IN IF k = 0 THEN c ELSE Ch(UpperAZ, k)
RECURSIVE MapCase(_, _, _)
MapCase(s, i, mode) == IF i > Len(s) THEN ""
                       ELSE (IF mode = "upper" \/ (mode = "region" /\ i > 3) \/ (mode = "title" /\ i \in {1, 4}) THEN UpperCh(Ch(s, i)) ELSE Ch(s, i)) \o MapCase(s, i + 1, mode)
CaseVariants == { MapCase(c, 1, m) : c \in SupportedCodes, m \in {"lower", "upper", "region", "title"} }
Regional == {"fr-ca", "fr-BE", "de-at", "de-CH", "pt-pt", "zh-tw", "zh-HK", "ja-x", "nl-be", "it-ch", "ko-kp", "tr-cy", "fr", "zh", "de", "ja"}
Ambiguous == {"es-ar", "es-US", "en-gb", "en-au", "EN-IN", "en", "es"}
Unknown == {"xx-yy", "sv-se", "ru-ru", "ar-sa", "klingon"}
Degenerate == {"f", "e", "p", "z", "-", "fr-", "-fr", "*", "en-", "<none>", " ", "e-"}
Codes == CaseVariants \cup Regional \cup Ambiguous \cup Unknown \cup Degenerate

(* option choice is relative to the model type: "none" = 0, "other" = another valid value if one
   exists (else 0), "high" = first value above the valid range, "neg" = -1 *)
OptChoices == {"none", "other", "high", "neg"}

VARIABLES c, pc
vars == <<c, pc>>
Init == /\ c \in { [code |-> t[1], optc |-> t[2], fb |-> t[3]] : t \in Codes \X OptChoices \X BOOLEAN }
        /\ pc = "gen"
Emit == pc = "gen" /\ pc' = "done" /\ UNCHANGED c
Next == Emit
Spec == Init /\ [][Next]_vars
=============================================================================
