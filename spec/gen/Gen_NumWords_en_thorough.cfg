SPECIFICATION Spec
CONSTANTS
  Small = 10000
  LimbPool = {0, 1, 5, 10, 13, 19, 20, 21, 40, 90, 99, 100, 101, 110, 120, 200, 500, 900, 999}
  MaxGroups = 5
CHECK_DEADLOCK FALSE
