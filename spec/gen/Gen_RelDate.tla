----------------------------- MODULE Gen_RelDate -----------------------------
EXTENDS RelDate
(* reference days: around year boundaries (ISO week 52/53/1), leap day, month ends *)
Span(y1, m1, d1, k) == { Ordinal(y1, m1, d1) + j : j \in 0..(k - 1) }
MonthEnds(years) == { Ordinal(y, m, DaysInMonth(y, m)) : y \in years, m \in 1..12 }
QDays == Span(2019, 12, 26, 12) \cup Span(2020, 2, 27, 4) \cup Span(2020, 12, 27, 9) \cup MonthEnds({2019, 2024}) \cup Span(2016, 11, 7, 7)
         \cup {Ordinal(1950, 1, 1), Ordinal(2089, 12, 31), Ordinal(2024, 12, 27), Ordinal(2026, 1, 1)}
         \cup Span(2019, 1, 1, 2) \cup Span(2024, 1, 1, 2) \cup Span(2018, 12, 31, 1)   \* both ends of a year whose first and last days lie in ISO week 1
TDays == Span(2019, 12, 20, 100) \cup MonthEnds({2000, 2023, 2024})
         \cup UNION { Span(y, 12, 28, 8) : y \in {1950, 1998, 2004, 2009, 2015, 2026, 2032, 2089} } \cup Span(2019, 1, 1, 2) \cup Span(2024, 1, 1, 2)
(* about 200 days x 3 times x 62 expressions: TLC builds the case set single-threaded, which bounds its size *)
QTimes == {<<0, 0, 0>>, <<12, 30, 0>>}
TTimes == {<<0, 0, 0>>, <<12, 30, 0>>, <<23, 59, 59>>}
AllCases == TLCEval(Cases)
VARIABLES c, pc
vars == <<c, pc>>
Init == c \in AllCases /\ pc = "gen"
Emit == pc = "gen" /\ pc' = "done" /\ UNCHANGED c
Next == Emit
Spec == Init /\ [][Next]_vars
=============================================================================
