SPECIFICATION Spec
CONSTANTS
  Registered = {}
  ValidOptions = {}
INVARIANT Report
CHECK_DEADLOCK FALSE
