SPECIFICATION Spec
CONSTANTS
  Prefixes = {}
  Suffixes = {}
  NeutralTokens = {}
  MaxNeutral = 0
  Separators = {}
INVARIANT Report
POSTCONDITION AllConsumed
CHECK_DEADLOCK FALSE
