SPECIFICATION Spec
CONSTANTS
  WeekOfMonthFixed = TRUE
  Years = {}
  ComboYears = {}
  Days = {}
  Hours = {}
  MinSecs = {}
  Weeks = {}
  Amounts = {}
INVARIANT Report
POSTCONDITION AllConsumed
CHECK_DEADLOCK FALSE
