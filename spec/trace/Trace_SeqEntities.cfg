SPECIFICATION Spec
CONSTANTS
  V4Octets = {}
  V4Full = FALSE
INVARIANT Report
POSTCONDITION AllConsumed
CHECK_DEADLOCK FALSE
