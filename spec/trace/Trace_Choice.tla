----------------------------- MODULE Trace_Choice -----------------------------
(* code -> spec for C20: one event per recognize_boolean call on a generated case. *)
EXTENDS Choice, Json, IOUtils

Events == JsonDeserialize(IOEnv.VERIF_EVENTS)
N == Len(Events)
VARIABLES i, bad, nbad
vars == <<i, bad, nbad>>

FixCase(c) == [c EXCEPT !.spans = { c.spans[k] : k \in 1..Len(c.spans) }]
Judge(e) == IF Has(e.obs, "exception") THEN "Raised: the call raised " \o e.obs.exception
            ELSE Verdict(FixCase(e.c), e.obs)

Init == i = 1 /\ bad = <<>> /\ nbad = 0
Consume == /\ i <= N
           /\ LET e == Events[i] v == Judge(e) IN
                /\ bad' = IF v # "ok" /\ Len(bad) < 400 THEN Append(bad, <<e.id, v>>) ELSE bad
                /\ nbad' = IF v # "ok" THEN nbad + 1 ELSE nbad
           /\ i' = i + 1
Next == Consume
Spec == Init /\ [][Next]_vars
Report == (i = N + 1) => PrintT(<<"RESULT", N, nbad, bad, <<>>>>)
AllConsumed == TLCGet("stats").diameter - 1 = N
=============================================================================
