----------------------------- MODULE Trace_Purity -----------------------------
(* code -> spec for C02: one event per recognise call made in some scenario (fresh process alone,
   after an arbitrary history, on the main thread, on a fresh worker thread, among 8 free-running
   threads): [id, rid (the request), digest (canonical form of the returned entities), scen].
   The first observation of a request is its ideal; every later observation must equal it. *)
EXTENDS Integers, Sequences, FiniteSets, TLC, Json, IOUtils
Events == JsonDeserialize(IOEnv.VERIF_EVENTS)
N == Len(Events)
VARIABLES i, ideal, bad, nbad
vars == <<i, ideal, bad, nbad>>
Init == i = 1 /\ ideal = <<>> /\ bad = <<>> /\ nbad = 0
Consume ==
  /\ i <= N
  /\ LET e == Events[i] IN
       IF e.rid \in DOMAIN ideal
       THEN /\ UNCHANGED ideal
            /\ IF ideal[e.rid] = e.digest THEN UNCHANGED <<bad, nbad>>
               ELSE /\ bad' = IF Len(bad) < 400 THEN Append(bad, <<e.id, "Pure: the request was answered differently from its first observation">>) ELSE bad
                    /\ nbad' = nbad + 1
       ELSE /\ ideal' = [x \in (DOMAIN ideal) \cup {e.rid} |-> IF x = e.rid THEN e.digest ELSE ideal[x]]
            /\ UNCHANGED <<bad, nbad>>
  /\ i' = i + 1
Next == Consume
Spec == Init /\ [][Next]_vars
Report == (i = N + 1) => PrintT(<<"RESULT", N, nbad, bad, <<>>>>)
AllConsumed == TLCGet("stats").diameter - 1 = N
=============================================================================
