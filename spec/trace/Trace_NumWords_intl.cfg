SPECIFICATION Spec
CONSTANTS
  Ns = {}
  Cultures = {}
INVARIANT Report
POSTCONDITION AllConsumed
CHECK_DEADLOCK FALSE
