SPECIFICATION Spec
CONSTANTS
  IntDigits = {}
  Fracs = {}
  Cultures = {}
INVARIANT Report
POSTCONDITION AllConsumed
CHECK_DEADLOCK FALSE
