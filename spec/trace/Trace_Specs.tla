------------------------- MODULE Trace_Specs -------------------------
(* code -> spec: one event per call on a generated case [id, c, obs]; the contract's verdict
   decides; a failing event is recorded and the trace goes on (total verdicts). *)
EXTENDS SpecsAgree, Json, IOUtils
Events == JsonDeserialize(IOEnv.VERIF_EVENTS)
N == Len(Events)
VARIABLES i, bad, nbad
vars == <<i, bad, nbad>>
Judge(e) == IF "exception" \in DOMAIN e.obs THEN "Raised: the call raised " \o e.obs.exception
            ELSE Verdict(e.c, e.obs)
Init == i = 1 /\ bad = <<>> /\ nbad = 0
Consume == /\ i <= N
           /\ LET e == Events[i] v == Judge(e) IN
                /\ bad' = IF v # "ok" /\ Len(bad) < 4000 THEN Append(bad, <<e.id, v>>) ELSE bad
                /\ nbad' = IF v # "ok" THEN nbad + 1 ELSE nbad
           /\ i' = i + 1
Next == Consume
Spec == Init /\ [][Next]_vars
Report == (i = N + 1) => PrintT(<<"RESULT", N, nbad, bad, <<>>>>)
AllConsumed == TLCGet("stats").diameter - 1 = N
=============================================================================
