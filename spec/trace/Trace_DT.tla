------------------------------- MODULE Trace_DT -------------------------------
(* code -> spec for the generated date-time cases of C06-C10: one event per
   recognize_datetime(text, culture, reference) call; DTCommon!ExactVerdict decides. *)
EXTENDS DTCommon, Json, IOUtils
Events == JsonDeserialize(IOEnv.VERIF_EVENTS)
N == Len(Events)
VARIABLES i, bad, nbad
vars == <<i, bad, nbad>>
FixCase(c) == [c EXCEPT !.vals = [k \in 1..Len(c.vals) |-> <<c.vals[k][1], c.vals[k][2], c.vals[k][3], c.vals[k][4]>>]]
Judge(e) == IF Has(e.obs, "exception") THEN "Raised: the call raised " \o e.obs.exception
            ELSE ExactVerdict(FixCase(e.c), e.obs)
Init == i = 1 /\ bad = <<>> /\ nbad = 0
Consume == /\ i <= N
           /\ LET e == Events[i] v == Judge(e) IN
                /\ bad' = IF v # "ok" /\ Len(bad) < 400 THEN Append(bad, <<e.id, v>>) ELSE bad
                /\ nbad' = IF v # "ok" THEN nbad + 1 ELSE nbad
           /\ i' = i + 1
Next == Consume
Spec == Init /\ [][Next]_vars
Report == (i = N + 1) => PrintT(<<"RESULT", N, nbad, bad, <<>>>>)
AllConsumed == TLCGet("stats").diameter - 1 = N
=============================================================================
