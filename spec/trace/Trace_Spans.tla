----------------------------- MODULE Trace_Spans -----------------------------
(* code -> spec for C01 and C12: one event per model call: [id, ql, ents [s, e, tl]].
   IOEnv.VERIF_WHICH selects the deciding clause family: "span" (C01) or "overlap" (C12). *)
EXTENDS Spans, Json, IOUtils
Events == JsonDeserialize(IOEnv.VERIF_EVENTS)
N == Len(Events)
Which == IOEnv.VERIF_WHICH
VARIABLES i, bad, nbad
vars == <<i, bad, nbad>>
Judge(e) == IF "exception" \in DOMAIN e THEN "Raised: the call raised " \o e.exception
            ELSE IF Which = "span" THEN SpansVerdict(e.ql, e.ents) ELSE DisjointVerdict(e.ents)
Init == i = 1 /\ bad = <<>> /\ nbad = 0
Consume == /\ i <= N
           /\ LET e == Events[i] v == Judge(e) IN
                /\ bad' = IF v # "ok" /\ Len(bad) < 400 THEN Append(bad, <<e.id, v>>) ELSE bad
                /\ nbad' = IF v # "ok" THEN nbad + 1 ELSE nbad
           /\ i' = i + 1
Next == Consume
Spec == Init /\ [][Next]_vars
Report == (i = N + 1) => PrintT(<<"RESULT", N, nbad, bad, <<>>>>)
AllConsumed == TLCGet("stats").diameter - 1 = N
=============================================================================
