-------------------------- MODULE Trace_Resolution --------------------------
(* code -> spec for C11 (mode "resolution") and C10 part 3 (mode "triple"): one event per
   recognize_datetime call [id, ents]; every entity of the call is judged. *)
EXTENDS Resolution, Json, IOUtils
Events == JsonDeserialize(IOEnv.VERIF_EVENTS)
N == Len(Events)
Mode == IOEnv.VERIF_WHICH
VARIABLES i, bad, nbad
vars == <<i, bad, nbad>>
EV(e) == IF Mode = "triple" THEN TripleEntityVerdict(e) ELSE EntityVerdict(e)
Judge(ev) ==
  IF Has(ev, "exception") THEN "Raised: the call raised " \o ev.exception
  ELSE LET badk == { k \in 1..Len(ev.ents) : EV(ev.ents[k]) # "ok" } IN
       IF badk = {} THEN "ok"
       ELSE LET k == CHOOSE x \in badk : \A j \in badk : x <= j IN EV(ev.ents[k]) \o " [entity " \o ToString(k) \o "]"
Init == i = 1 /\ bad = <<>> /\ nbad = 0
Consume == /\ i <= N
           /\ LET e == Events[i] v == Judge(e) IN
                /\ bad' = IF v # "ok" /\ Len(bad) < 400 THEN Append(bad, <<e.id, v>>) ELSE bad
                /\ nbad' = IF v # "ok" THEN nbad + 1 ELSE nbad
           /\ i' = i + 1
Next == Consume
Spec == Init /\ [][Next]_vars
Report == (i = N + 1) => PrintT(<<"RESULT", N, nbad, bad, <<>>>>)
AllConsumed == TLCGet("stats").diameter - 1 = N
=============================================================================
