INIT TInit
NEXT TNext
CONSTANTS
  Threads = {1, 2, 3, 4, 5, 6, 7, 8, 9}
  Reqs = {}
  MaxCalls = 0
  CodeMapFixed = TRUE
  Registered <- TraceRegistered
  ValidOptions <- TraceValid
  Family <- TraceFamily
INVARIANT Report
CHECK_DEADLOCK FALSE
