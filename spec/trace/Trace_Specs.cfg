SPECIFICATION Spec
INVARIANT Report
POSTCONDITION AllConsumed
CHECK_DEADLOCK FALSE
