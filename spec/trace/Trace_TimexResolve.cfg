SPECIFICATION Spec
CONSTANTS
  RefDays = {}
  DurAmounts = {}
  RangeYears = {}
  DateRanges = {}
  TimeRanges = {}
  MonthDays = {}
  Times = {}
  MaxCands = 0
  MaxDateC = 0
  MaxTimeC = 0
INVARIANT Report
POSTCONDITION AllConsumed
CHECK_DEADLOCK FALSE
