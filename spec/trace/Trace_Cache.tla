----------------------------- MODULE Trace_Cache -----------------------------
(* code -> spec for C17 (and the cache part of C02): the event log of the real process-wide
   cache - one event per request start, cache get, constructor run, cache set, return / raise,
   numbered under one lock at the linearisation point - is replayed through the actions of
   ModelCache.tla.  Every event must be the next step of its thread in the spec with exactly the
   logged key, hit flag and model id; a returned model must satisfy Routing!Verdict.
   Verdicts are total: a mismatch is recorded, the thread is marked desynchronised until its next
   request, and the shared state keeps following the log. *)
EXTENDS ModelCache, Json, IOUtils

Traces == JsonDeserialize(IOEnv.VERIF_EVENTS)   \* sequence of [id, events]
NT == Len(Traces)

(* the running configuration: registered (type, culture) pairs, valid options, families *)
RegData == JsonDeserialize(IOEnv.VERIF_REG)
TraceRegistered == { <<RegData.pairs[k][1], RegData.pairs[k][2]>> : k \in 1..Len(RegData.pairs) }
TraceTypes == { RegData.pairs[k][1] : k \in 1..Len(RegData.pairs) } \cup {""}
TraceValid == [ty \in TraceTypes |-> IF ty = "" THEN {0} ELSE { RegData.valid[ty][k] : k \in 1..Len(RegData.valid[ty]) }]
TraceFamily == [ty \in TraceTypes |-> IF ty = "" THEN "" ELSE RegData.family[ty]]

VARIABLES tr, l, bad, nbad, drift, desync, nsteps
tvars == <<tr, l, bad, nbad, drift, desync, nsteps>>
allvars == <<vars, tvars>>

Ev == Traces[tr].events[l]
KeyOf(e) == <<e.key[1], e.key[2], e.key[3]>>
ReqOf(e) == [type |-> e.req.type, code |-> e.req.code, opt |-> e.req.opt, fb |-> e.req.fb]

ResetModel ==
  /\ cache' = <<>> /\ built' = <<>>
  /\ pc' = [t \in Threads |-> "idle"]
  /\ req' = [t \in Threads |-> [type |-> "", code |-> "", opt |-> 0, fb |-> FALSE]]
  /\ cul' = [t \in Threads |-> NoCode] /\ held' = [t \in Threads |-> NoModel]
  /\ result' = [t \in Threads |-> NoModel] /\ calls' = [t \in Threads |-> 0]
  /\ todo' = [t \in Threads |-> {}] /\ sub' = [t \in Threads |-> NoPair]

TInit == /\ tr = 1 /\ l = 1 /\ bad = <<>> /\ nbad = 0 /\ drift = <<>> /\ desync = {} /\ nsteps = 0
         /\ cache = <<>> /\ built = <<>>
         /\ pc = [t \in Threads |-> "idle"]
         /\ req = [t \in Threads |-> [type |-> "", code |-> "", opt |-> 0, fb |-> FALSE]]
         /\ cul = [t \in Threads |-> NoCode] /\ held = [t \in Threads |-> NoModel]
         /\ result = [t \in Threads |-> NoModel] /\ calls = [t \in Threads |-> 0]
         /\ todo = [t \in Threads |-> {}] /\ sub = [t \in Threads |-> NoPair]

(* a mechanism mismatch: the code took a step the model's thread cannot take.  Recorded as drift
   (advisory); verdicts come only from what a request returns or raises (Violation below). *)
Fail(clause) == /\ drift' = IF Len(drift) < 60 THEN Append(drift, <<Traces[tr].id, clause \o " (event " \o ToString(Ev.seq) \o ")">>) ELSE drift
                /\ desync' = desync \cup {Ev.t}
                /\ UNCHANGED <<bad, nbad>>
Pass == UNCHANGED <<bad, nbad, drift, desync>>
Violation(v) == /\ bad' = IF Len(bad) < 200 THEN Append(bad, <<Traces[tr].id, v \o " (event " \o ToString(Ev.seq) \o ")">>) ELSE bad
                /\ nbad' = nbad + 1
Advance == /\ nsteps' = nsteps + 1
           /\ IF l < Len(Traces[tr].events) THEN l' = l + 1 /\ tr' = tr ELSE l' = 1 /\ tr' = tr + 1

(* the shared effects of an event of a desynchronised thread still happen *)
SharedOnly(e) ==
  /\ IF e.op = "build" THEN built' = Append(built, KeyOf(e)) ELSE UNCHANGED built
  /\ IF e.op = "set" THEN cache' = CachePut(KeyOf(e), e.model) ELSE UNCHANGED cache
  /\ UNCHANGED <<pc, req, cul, held, result, calls, todo, sub>>

StepCall(e, t) ==
  IF pc[t] # "idle" /\ t \notin desync
  THEN Fail("Call: a request starts while the previous one is unfinished in the model") /\ SharedOnly(e)
  ELSE /\ (\E r \in {ReqOf(e)} : /\ req' = [req EXCEPT ![t] = r]
                                  /\ calls' = calls
                                  /\ result' = [result EXCEPT ![t] = NoModel]
                                  /\ held' = [held EXCEPT ![t] = NoModel]
                                  /\ sub' = [sub EXCEPT ![t] = NoPair]
                                  /\ IF r.opt \notin ValidOptions[r.type]
                                     THEN pc' = [pc EXCEPT ![t] = "raised"] /\ UNCHANGED <<cul, todo>>
                                     ELSE /\ cul' = [cul EXCEPT ![t] = MapCulture(r.code)]
                                          /\ IF r.code = NoCode
                                             THEN pc' = [pc EXCEPT ![t] = "init"] /\ todo' = [todo EXCEPT ![t] = FamilyPairs(r.type)]
                                             ELSE pc' = [pc EXCEPT ![t] = "lookup"] /\ todo' = [todo EXCEPT ![t] = {}])
       /\ UNCHANGED <<cache, built>>
       /\ desync' = desync \ {t} /\ UNCHANGED <<bad, nbad, drift>>

(* a cache read: the main lookup, the fallback lookup (after the silent Fallback step) or one of
   initialize_models' lookups *)
StepGet(e, t) ==
  LET k == KeyOf(e) IN
  IF e.hit # (CacheGet(k) # NoModel) \/ (e.hit /\ e.model # CacheGet(k))
  THEN Fail("CacheState: the cache answered differently from the model's cache for that key") /\ SharedOnly(e)
  ELSE IF pc[t] = "init" /\ <<k[1], k[2]>> \in todo[t] /\ k[3] = req[t].opt
  THEN InitLookup(t, <<k[1], k[2]>>) /\ Pass
  ELSE IF pc[t] \in {"lookup", "fb_lookup"} /\ CurKey(t) = k
  THEN Lookup(t) /\ Pass
  ELSE IF pc[t] = "init" /\ CurKey(t) = k /\ todo[t] = FamilyPairs(req[t].type)
  THEN (* SkipInit followed by the request's own lookup (no eager initialisation) *)
       /\ todo' = [todo EXCEPT ![t] = {}]
       /\ IF CacheGet(k) # NoModel
          THEN result' = [result EXCEPT ![t] = CacheGet(k)] /\ pc' = [pc EXCEPT ![t] = "return"]
          ELSE /\ UNCHANGED result
               /\ pc' = [pc EXCEPT ![t] = IF <<req[t].type, cul[t]>> \in Registered THEN "build"
                                           ELSE IF req[t].fb THEN "fallback" ELSE "raised"]
       /\ UNCHANGED <<cache, built, req, cul, held, calls, sub>>
       /\ Pass
  ELSE IF pc[t] = "fallback" /\ Key(req[t].type, English, req[t].opt) = k
  THEN FallbackLookup(t) /\ Pass
  ELSE Fail("Key: cache looked up under a key other than the one the request resolves to") /\ SharedOnly(e)

StepBuild(e, t) ==
  LET k == KeyOf(e) IN
  IF e.model # NextId THEN Fail("BuildId: model ids out of step") /\ SharedOnly(e)
  ELSE IF pc[t] \in {"build", "fb_build"} /\ CurKey(t) = k THEN Build(t) /\ Pass
  ELSE IF pc[t] = "init_build" /\ SubKey(t) = k THEN InitBuild(t) /\ Pass
  ELSE Fail("Build: a constructor ran for a key other than the one looked up") /\ SharedOnly(e)

StepSet(e, t) ==
  LET k == KeyOf(e) IN
  IF pc[t] = "insert" /\ CurKey(t) = k /\ held[t] = e.model THEN Insert(t) /\ Pass
  ELSE IF pc[t] = "init_insert" /\ SubKey(t) = k /\ held[t] = e.model THEN InitInsert(t) /\ Pass
  ELSE Fail("Insert: a model was cached under a key or id other than the one built") /\ SharedOnly(e)

(* the observation a caller makes: which model came back (identified by the constructor that
   built it, as logged) or which exception; judged by Routing!Verdict whatever the mechanism did *)
ObsOfRet(e) == IF "tag" \in DOMAIN e
               THEN [kind |-> "model", type |-> e.tag.type, culture |-> e.tag.culture, opt |-> e.tag.opt]
               ELSE [kind |-> "model", type |-> "?", culture |-> "?", opt |-> -1]
StepRet(e, t) ==
  LET v == IF "tag" \notin DOMAIN e THEN "Untagged: the returned model was not built by a registered constructor"
           ELSE IF e.model \in 1..Len(built) /\ built[e.model] # <<e.tag.type, e.tag.culture, e.tag.opt>> THEN "LogInconsistent: tag of the returned model differs from its constructor event"
           ELSE Verdict(req[t], ObsOfRet(e))
      mechOK == t \notin desync /\ pc[t] = "return" /\ result[t] = e.model
  IN /\ IF v = "ok" THEN UNCHANGED <<bad, nbad>> ELSE Violation(v)
     /\ IF mechOK THEN Return(t) /\ UNCHANGED <<drift, desync>>
        ELSE /\ SharedOnly(e)
             /\ drift' = IF t \in desync \/ Len(drift) >= 60 THEN drift
                         ELSE Append(drift, <<Traces[tr].id, "Return: the returned model is not the one the model's thread holds (event " \o ToString(e.seq) \o ")">>)
             /\ desync' = desync \cup {t}

StepRaise(e, t) ==
  LET v == Verdict(req[t], [kind |-> "error", exception |-> e.exception])
      mechOK == t \notin desync /\ pc[t] = "raised"
  IN /\ IF v = "ok" THEN UNCHANGED <<bad, nbad>> ELSE Violation(v)
     /\ IF mechOK THEN Return(t) /\ UNCHANGED <<drift, desync>>
        ELSE /\ SharedOnly(e)
             /\ drift' = IF t \in desync \/ Len(drift) >= 60 THEN drift
                         ELSE Append(drift, <<Traces[tr].id, "Raise: the request raised where the model's thread does not (event " \o ToString(e.seq) \o ")">>)
             /\ desync' = desync \cup {t}

Consume ==
  /\ tr <= NT
  /\ LET e == Ev t == e.t IN
       IF l = 1 /\ nsteps > 0 /\ (cache # <<>> \/ built # <<>> \/ \E x \in Threads : pc[x] # "idle" \/ x \in desync)
       THEN (* a new trace starts from a cold cache: reset first (stutter on the log) *)
            /\ ResetModel /\ desync' = {} /\ UNCHANGED <<tr, l, bad, nbad, drift>> /\ nsteps' = nsteps + 1
       ELSE /\ IF e.op = "call" THEN StepCall(e, t)
               ELSE IF e.op = "ret" THEN StepRet(e, t)
               ELSE IF e.op = "raise" THEN StepRaise(e, t)
               ELSE IF t \in desync THEN SharedOnly(e) /\ Pass
               ELSE IF e.op = "get" THEN StepGet(e, t)
               ELSE IF e.op = "build" THEN StepBuild(e, t)
               ELSE StepSet(e, t)
            /\ Advance

TNext == Consume
TSpec == TInit /\ [][TNext]_allvars

CacheOK == CacheKeyCorrect
Report == (tr = NT + 1) => PrintT(<<"RESULT", NT, nbad, bad, drift>>)
Finished == TLCGet("stats").diameter >= NT   \* every trace consumed: tr reached NT + 1
=============================================================================
