------------------------- MODULE Trace_TimexResolve -------------------------
(* code -> spec for C15: one event per TimexResolver.resolve / TimexRangeResolver.evaluate call
   made by replaying the scenarios of Gen_TimexResolve into the real code. *)
EXTENDS TimexResolve, Json, IOUtils

Events == JsonDeserialize(IOEnv.VERIF_EVENTS)
N == Len(Events)

VARIABLES i, bad, nbad
vars == <<i, bad, nbad>>

(* scenario records travel through JSON: sets arrive as sequences *)
Pair(x) == <<x[1], x[2]>>
FixCase(c) == IF c.k = "eval"
              THEN [k |-> "eval", cands |-> SeqToSet(c.cands), dr |-> { Pair(x) : x \in SeqToSet(c.dr) }, tr |-> { Pair(x) : x \in SeqToSet(c.tr) }]
              ELSE c

Judge(e) ==
  IF Has(e.obs, "exception") THEN "Raised: the call raised " \o e.obs.exception
  ELSE IF Has(e.obs, "timeout") THEN "NoReturn: the call did not return within the watchdog limit"
  ELSE IF e.c.k = "eval" THEN VerdictEval(FixCase(e.c), e.obs)
  ELSE VerdictResolve(e.c, e.obs)

Init == i = 1 /\ bad = <<>> /\ nbad = 0
Consume ==
  /\ i <= N
  /\ LET e == Events[i]
         v == Judge(e)
     IN /\ bad' = IF v # "ok" /\ Len(bad) < 300 THEN Append(bad, <<e.id, v>>) ELSE bad
        /\ nbad' = IF v # "ok" THEN nbad + 1 ELSE nbad
  /\ i' = i + 1
Next == Consume
Spec == Init /\ [][Next]_vars
Report == (i = N + 1) => PrintT(<<"RESULT", N, nbad, bad, <<>>>>)
AllConsumed == TLCGet("stats").diameter - 1 = N
=============================================================================
