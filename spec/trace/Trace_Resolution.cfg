SPECIFICATION Spec
CONSTANTS
  DurNs = {}
  DatePairs = {}
  TimePairs = {}
  RefDay = 0
INVARIANT Report
POSTCONDITION AllConsumed
CHECK_DEADLOCK FALSE
