---------------------------- MODULE Trace_Matcher ----------------------------
(* code -> spec for C16.  Event kinds:
     "tok":   [tokenizer, cps, tokens]                    one Tokenizer.tokenize call
     "match": [tokenizer, cps, qtoks, dict, matches]      one StringMatcher.init + find; qtoks and
              dict[..].toks are the tokenisations the same tokenizer reports for query and phrases *)
EXTENDS Matcher, Json, IOUtils

Events == JsonDeserialize(IOEnv.VERIF_EVENTS)
N == Len(Events)

VARIABLES i, bad, drift, nbad
vars == <<i, bad, drift, nbad>>

Has(r, k) == k \in DOMAIN r

Judge(e) ==
  IF Has(e.obs, "exception") THEN "Raised: the call raised " \o e.obs.exception
  ELSE IF e.k = "tok" THEN TokensVerdict(e.cps, e.obs.tokens)
  ELSE LET tv == TokensVerdict(e.cps, e.obs.qtoks) IN
       IF tv # "ok" THEN tv
       ELSE MatchVerdict(e.cps, e.obs.qtoks, [d \in 1..Len(e.obs.dict) |-> [toks |-> e.obs.dict[d].toks, id |-> e.obs.dict[d].id]], e.obs.matches)

Drift(e) == ~Has(e.obs, "exception") /\ e.k = "tok" /\ ~GroupingAgrees(e.tokenizer, e.cps, e.obs.tokens)

Init == i = 1 /\ bad = <<>> /\ drift = <<>> /\ nbad = 0
Consume ==
  /\ i <= N
  /\ LET e == Events[i]
         v == Judge(e)
     IN /\ bad' = IF v # "ok" /\ Len(bad) < 300 THEN Append(bad, <<e.id, v>>) ELSE bad
        /\ nbad' = IF v # "ok" THEN nbad + 1 ELSE nbad
        /\ drift' = IF Drift(e) /\ Len(drift) < 50 THEN Append(drift, e.id) ELSE drift
  /\ i' = i + 1
Next == Consume
Spec == Init /\ [][Next]_vars
Report == (i = N + 1) => PrintT(<<"RESULT", N, nbad, bad, drift>>)
AllConsumed == TLCGet("stats").diameter - 1 = N
=============================================================================
