---------------------------- MODULE Trace_Timex ----------------------------
(* code -> spec for C14: every event is one observation of the real datatype
   (Timex(s) -> fields, timex_value(), Timex(that) -> fields, timex_value(); or a from_* call).
   The contract's Verdict decides; the transcription TimexOps is compared as an advisory
   (mechanism drift).  The verdict is total: a failing event is recorded and the trace goes on. *)
EXTENDS TimexOps, Json, IOUtils

Events == JsonDeserialize(IOEnv.VERIF_EVENTS)
N == Len(Events)

VARIABLES i, bad, drift, nbad
vars == <<i, bad, drift, nbad>>

Judge(e) == IF Has(e.obs, "exception") THEN "Raised: the call raised an exception on a grammar string"
            ELSE IF e.k = "rt" THEN Verdict(e.c, e.obs) ELSE VerdictFrom(e.c, e.obs)

MechAgrees(e) ==
  IF Has(e.obs, "exception") THEN TRUE ELSE IF e.k = "rt"
  THEN LET f1 == ParseFields(e.c.text) t1 == Format(f1) IN
       /\ SameRec(f1, e.obs.fields1)
       /\ t1 = e.obs.fmt1
       /\ SameRec(ParseFields(t1), e.obs.fields2)
       /\ { e.obs.types1[j] : j \in 1..Len(e.obs.types1) } = Infer(f1)
       /\ DenotationOK(e.c, e.obs)
  ELSE TRUE

Init == i = 1 /\ bad = <<>> /\ drift = <<>> /\ nbad = 0

Consume ==
  /\ i <= N
  /\ LET e == Events[i]
         v == Judge(e)
     IN /\ bad' = IF v # "ok" /\ Len(bad) < 200 THEN Append(bad, <<e.id, v>>) ELSE bad
        /\ nbad' = IF v # "ok" THEN nbad + 1 ELSE nbad
        /\ drift' = IF ~MechAgrees(e) /\ Len(drift) < 50 THEN Append(drift, e.id) ELSE drift
  /\ i' = i + 1

Next == Consume
Spec == Init /\ [][Next]_vars

Report == (i = N + 1) => PrintT(<<"RESULT", N, nbad, bad, drift>>)
AllConsumed == TLCGet("stats").diameter - 1 = N
=============================================================================
