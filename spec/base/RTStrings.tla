---------------------------- MODULE RTStrings ----------------------------
(* String helpers usable in TLC: TLC implements Len, SubSeq and \o on strings. *)
EXTENDS Naturals, Sequences, TLC

Ch(s, i) == SubSeq(s, i, i)

Digits == {"0", "1", "2", "3", "4", "5", "6", "7", "8", "9"}

DigitVal(c) ==
  CASE c = "0" -> 0 [] c = "1" -> 1 [] c = "2" -> 2 [] c = "3" -> 3 [] c = "4" -> 4
    [] c = "5" -> 5 [] c = "6" -> 6 [] c = "7" -> 7 [] c = "8" -> 8 [] c = "9" -> 9

IsDigit(c) == c \in Digits

AllDigits(s) == \A i \in 1..Len(s) : IsDigit(Ch(s, i))

RECURSIVE ToNat(_)
ToNat(s) == IF Len(s) = 0 THEN 0
            ELSE ToNat(SubSeq(s, 1, Len(s) - 1)) * 10 + DigitVal(Ch(s, Len(s)))

Pad2(n) == IF n < 10 THEN "0" \o ToString(n) ELSE ToString(n)
Pad4(n) == IF n < 10 THEN "000" \o ToString(n)
           ELSE IF n < 100 THEN "00" \o ToString(n)
           ELSE IF n < 1000 THEN "0" \o ToString(n) ELSE ToString(n)

(* first index of character c in s, 0 if absent *)
RECURSIVE IndexFrom(_, _, _)
IndexFrom(s, c, i) == IF i > Len(s) THEN 0 ELSE IF Ch(s, i) = c THEN i ELSE IndexFrom(s, c, i + 1)
IndexOf(s, c) == IndexFrom(s, c, 1)

StartsWith(s, p) == Len(s) >= Len(p) /\ SubSeq(s, 1, Len(p)) = p
EndsWith(s, p) == Len(s) >= Len(p) /\ SubSeq(s, Len(s) - Len(p) + 1, Len(s)) = p

(* pattern matching with "d" = one decimal digit, anything else literal *)
MatchPat(p, s) == /\ Len(p) = Len(s)
                  /\ \A i \in 1..Len(p) :
                        IF Ch(p, i) = "d" THEN IsDigit(Ch(s, i)) ELSE Ch(p, i) = Ch(s, i)

(* strip leading "0" characters, keeping at least one character *)
RECURSIVE StripLeadingZeros(_)
StripLeadingZeros(s) == IF Len(s) > 1 /\ Ch(s, 1) = "0" THEN StripLeadingZeros(SubSeq(s, 2, Len(s))) ELSE s

RECURSIVE StripTrailingZeros(_)
StripTrailingZeros(s) == IF Len(s) > 0 /\ Ch(s, Len(s)) = "0" THEN StripTrailingZeros(SubSeq(s, 1, Len(s) - 1)) ELSE s

LowerAZ == "abcdefghijklmnopqrstuvwxyz"
UpperAZ == "ABCDEFGHIJKLMNOPQRSTUVWXYZ"
LowerCh(c) == LET k == IndexOf(UpperAZ, c) IN IF k = 0 THEN c ELSE Ch(LowerAZ, k)
RECURSIVE ToLowerFrom(_, _)
ToLowerFrom(s, i) == IF i > Len(s) THEN "" ELSE LowerCh(Ch(s, i)) \o ToLowerFrom(s, i + 1)
ToLower(s) == ToLowerFrom(s, 1)

(* TLC 1.8 mangles characters above 0x7F in strings held in state variables, so specification
   strings stay ASCII: "{e4}" stands for the code point U+00E4 (the harness decodes it before the
   text reaches the code).  CpLen counts code points of the decoded text. *)
RECURSIVE CpLenFrom(_, _)
CpLenFrom(s, i) == IF i > Len(s) THEN 0
                   ELSE IF Ch(s, i) = "{" THEN 1 + CpLenFrom(s, IndexFrom(s, "}", i) + 1)
                   ELSE 1 + CpLenFrom(s, i + 1)
CpLen(s) == CpLenFrom(s, 1)

RECURSIVE SplitAt(_, _, _, _)
(* split s on character c: returns sequence of pieces *)
SplitAt(s, c, i, start) ==
  IF i > Len(s) THEN <<SubSeq(s, start, Len(s))>>
  ELSE IF Ch(s, i) = c THEN <<SubSeq(s, start, i - 1)>> \o SplitAt(s, c, i + 1, i + 1)
  ELSE SplitAt(s, c, i + 1, start)
Split(s, c) == SplitAt(s, c, 1, 1)

(* records read from JSON omit absent keys *)
Get(r, k, d) == IF k \in DOMAIN r THEN r[k] ELSE d
Has(r, k) == k \in DOMAIN r
SameRec(a, b) == DOMAIN a = DOMAIN b /\ \A k \in DOMAIN a : a[k] = b[k]

Max(a, b) == IF a > b THEN a ELSE b
Min(a, b) == IF a < b THEN a ELSE b
=============================================================================
