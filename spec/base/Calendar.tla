----------------------------- MODULE Calendar -----------------------------
(* Proleptic Gregorian calendar on day ordinals (0001-01-01 = 1, as Python's toordinal). *)
EXTENDS Integers, Sequences, TLC, RTStrings

IsLeap(y) == (y % 4 = 0 /\ y % 100 # 0) \/ y % 400 = 0

DaysInMonth(y, m) ==
  CASE m \in {1, 3, 5, 7, 8, 10, 12} -> 31
    [] m \in {4, 6, 9, 11} -> 30
    [] m = 2 -> IF IsLeap(y) THEN 29 ELSE 28

ValidDate(y, m, d) == y \in 1..9999 /\ m \in 1..12 /\ d >= 1 /\ d <= DaysInMonth(y, m)

CumDays == <<0, 31, 59, 90, 120, 151, 181, 212, 243, 273, 304, 334>>
DaysBeforeMonth(y, m) == CumDays[m] + (IF m > 2 /\ IsLeap(y) THEN 1 ELSE 0)
DaysBeforeYear(y) == LET p == y - 1 IN 365 * p + (p \div 4) - (p \div 100) + (p \div 400)

Ordinal(y, m, d) == DaysBeforeYear(y) + DaysBeforeMonth(y, m) + d

YearOfOrdinal(n) ==
  LET est == ((n - 1) * 400) \div 146097 + 1
  IN CHOOSE y \in {est - 1, est, est + 1} : y >= 1 /\ DaysBeforeYear(y) < n /\ n <= DaysBeforeYear(y + 1)

FromOrdinal(n) ==
  LET y == YearOfOrdinal(n)
      r == n - DaysBeforeYear(y)
      m == CHOOSE k \in 1..12 : DaysBeforeMonth(y, k) < r /\ r <= DaysBeforeMonth(y, k) + DaysInMonth(y, k)
  IN <<y, m, r - DaysBeforeMonth(y, m)>>

(* ISO weekday 1 = Monday .. 7 = Sunday *)
IsoWeekday(n) == ((n + 6) % 7) + 1
MondayOf(n) == n - (IsoWeekday(n) - 1)

IsoWeekYear(n) == YearOfOrdinal(n - IsoWeekday(n) + 4)
IsoWeek(n) == LET th == n - IsoWeekday(n) + 4
                  y == YearOfOrdinal(th)
              IN ((th - Ordinal(y, 1, 1)) \div 7) + 1

(* month arithmetic on (year, month) only *)
ShiftMonth(y, m, k) == LET t == (y * 12 + (m - 1)) + k IN <<t \div 12, (t % 12) + 1>>

(* datedelta semantics: a non-existent target day rolls over to the 1st of the next month *)
AddMonthsRollover(y, m, d, k) ==
  LET ym == ShiftMonth(y, m, k) IN
  IF d <= DaysInMonth(ym[1], ym[2]) THEN <<ym[1], ym[2], d>>
  ELSE LET nx == ShiftMonth(ym[1], ym[2], 1) IN <<nx[1], nx[2], 1>>

(* clamped: a non-existent target day becomes the month's last day *)
AddMonthsClamp(y, m, d, k) ==
  LET ym == ShiftMonth(y, m, k) IN <<ym[1], ym[2], Min(d, DaysInMonth(ym[1], ym[2]))>>

DateStr(y, m, d) == Pad4(y) \o "-" \o Pad2(m) \o "-" \o Pad2(d)
OrdStr(n) == LET c == FromOrdinal(n) IN DateStr(c[1], c[2], c[3])
TimeStr(h, mi, s) == Pad2(h) \o ":" \o Pad2(mi) \o ":" \o Pad2(s)

(* string-level recognisers *)
IsDateStr(s) == MatchPat("dddd-dd-dd", s)
DateStrValid(s) == IsDateStr(s) /\ ValidDate(ToNat(SubSeq(s, 1, 4)), ToNat(SubSeq(s, 6, 7)), ToNat(SubSeq(s, 9, 10)))
DateStrOrd(s) == Ordinal(ToNat(SubSeq(s, 1, 4)), ToNat(SubSeq(s, 6, 7)), ToNat(SubSeq(s, 9, 10)))
IsTimeStr(s) == MatchPat("dd:dd:dd", s)
TimeStrValid(s) == IsTimeStr(s) /\ ToNat(SubSeq(s, 1, 2)) <= 23 /\ ToNat(SubSeq(s, 4, 5)) <= 59 /\ ToNat(SubSeq(s, 7, 8)) <= 59
TimeStrSecs(s) == ToNat(SubSeq(s, 1, 2)) * 3600 + ToNat(SubSeq(s, 4, 5)) * 60 + ToNat(SubSeq(s, 7, 8))
IsDateTimeStr(s) == MatchPat("dddd-dd-dd dd:dd:dd", s)
DateTimeStrValid(s) == IsDateTimeStr(s) /\ DateStrValid(SubSeq(s, 1, 10)) /\ TimeStrValid(SubSeq(s, 12, 19))
=============================================================================
