------------------------------- MODULE BigNat -------------------------------
(* Decimal arithmetic on digit strings (TLC integers are 32 bit). *)
EXTENDS Naturals, Sequences, TLC, RTStrings

RECURSIVE MulRec(_, _, _, _)
MulRec(s, i, k, carry) ==
  IF i = 0 THEN (IF carry = 0 THEN "" ELSE ToString(carry))
  ELSE LET v == DigitVal(Ch(s, i)) * k + carry IN MulRec(s, i - 1, k, v \div 10) \o ToString(v % 10)
(* digit string times a natural k < 2*10^8 *)
MulStr(s, k) == LET r == StripLeadingZeros(MulRec(s, Len(s), k, 0)) IN IF r = "" THEN "0" ELSE r

RECURSIVE Zeros(_)
Zeros(n) == IF n = 0 THEN "" ELSE "0" \o Zeros(n - 1)
PadLeft(s, n) == IF Len(s) >= n THEN s ELSE Zeros(n - Len(s)) \o s

(* a decimal literal "123.450" or "7" or ".5" as <<integer digits (no leading zeros), fraction
   digits (no trailing zeros)>> *)
DecNorm(a) ==
  LET dot == IndexOf(a, ".")
      ip == IF dot = 0 THEN a ELSE SubSeq(a, 1, dot - 1)
      fp == IF dot = 0 THEN "" ELSE SubSeq(a, dot + 1, Len(a))
      ipn == IF ip = "" THEN "0" ELSE StripLeadingZeros(ip)
  IN <<ipn, StripTrailingZeros(fp)>>
IsDecimal(a) == /\ Len(a) >= 1
                /\ \A i \in 1..Len(a) : IsDigit(Ch(a, i)) \/ Ch(a, i) = "."
                /\ \E i \in 1..Len(a) : IsDigit(Ch(a, i))
                /\ \A i, j \in 1..Len(a) : (Ch(a, i) = "." /\ Ch(a, j) = ".") => i = j

(* decimal literal a times natural k, normalised as DecNorm *)
DecMul(a, k) ==
  LET n == DecNorm(a)
      f == Len(n[2])
      p == PadLeft(MulStr(n[1] \o n[2], k), f + 1)
      ip == SubSeq(p, 1, Len(p) - f)
      fp == SubSeq(p, Len(p) - f + 1, Len(p))
  IN <<StripLeadingZeros(ip), StripTrailingZeros(fp)>>
=============================================================================
