------------------------- MODULE ConstraintCollapse -------------------------
(* Transcription of TimexConstraintsHelper.collapse / inner_collapse with Python's list
   semantics, over date ranges <<start, end>> on a small integer line.
   Fixed = TRUE : `del ranges[j]; del ranges[i]`           (after the fix commit)
   Fixed = FALSE: `del ranges[i:1]; del ranges[j-1:1]`      (slice deletion: removes the element
                  at index 0 only when i = 0, respectively j - 1 = 0; otherwise nothing) *)
EXTENDS Integers, Sequences, FiniteSets, TLC

CONSTANTS Points, MaxLen, Fixed

Ranges == { r \in Points \X Points : r[1] < r[2] }

(* DateRange.is_overlapping (asymmetric, as written) and collapse_overlapping (= intersection) *)
Overlap(a, b) == (a[2] > b[2] /\ a[1] <= b[1]) \/ (b[2] > a[1] /\ a[1] >= b[1])
Max2(x, y) == IF x > y THEN x ELSE y
Min2(x, y) == IF x < y THEN x ELSE y
Collapse(a, b) == <<Max2(a[1], b[1]), Min2(a[2], b[2])>>

RECURSIVE SeqsUpTo(_)
SeqsUpTo(n) == IF n = 0 THEN {<<>>} ELSE SeqsUpTo(n - 1) \cup { Append(s, r) : s \in { t \in SeqsUpTo(n - 1) : Len(t) = n - 1 }, r \in Ranges }

VARIABLES init, ranges, pc
vars == <<init, ranges, pc>>

Init == /\ init \in (SeqsUpTo(MaxLen) \ {<<>>})
        /\ ranges = init
        /\ pc = "loop"

Pairs(s) == { p \in (1..Len(s)) \X (1..Len(s)) : p[1] < p[2] /\ Overlap(s[p[1]], s[p[2]]) }
(* the first pair in the order of the nested for loops *)
FirstPair(s) == CHOOSE p \in Pairs(s) : \A q \in Pairs(s) : p[1] < q[1] \/ (p[1] = q[1] /\ p[2] <= q[2])

RemoveAt(s, k) == SubSeq(s, 1, k - 1) \o SubSeq(s, k + 1, Len(s))
(* Python `del s[a:1]` with 0-based a: deletes s[0] iff a = 0 (and the list is non-empty) *)
DelSlice(s, a) == IF a = 0 /\ Len(s) > 0 THEN Tail(s) ELSE s

InnerCollapse ==
  /\ pc = "loop"
  /\ IF Len(ranges) = 1 \/ Pairs(ranges) = {}
     THEN pc' = "sort" /\ UNCHANGED ranges
     ELSE LET p == FirstPair(ranges)
              i == p[1] - 1      \* 0-based as in the code
              j == p[2] - 1
              merged == Collapse(ranges[p[1]], ranges[p[2]])
          IN /\ ranges' = IF Fixed THEN Append(RemoveAt(RemoveAt(ranges, p[2]), p[1]), merged)
                          ELSE Append(DelSlice(DelSlice(ranges, i), j - 1), merged)
             /\ pc' = "loop"
  /\ UNCHANGED init

Sort == /\ pc = "sort"
        /\ ranges' = SortSeq(ranges, LAMBDA a, b : a[1] < b[1])
        /\ pc' = "done"
        /\ UNCHANGED init

Next == InnerCollapse \/ Sort
Spec == Init /\ [][Next]_vars /\ WF_vars(Next)

(* ---- properties *)
NoGrowth == Len(ranges) <= Len(init)
Terminates == <>(pc = "done")
(* every surviving range is non-empty and lies inside one of the supplied ranges: what makes
   "falls inside at least one supplied date-range constraint" true of evaluate's results *)
InsideSupplied == \A k \in 1..Len(ranges) :
                     /\ ranges[k][1] < ranges[k][2]
                     /\ \E o \in 1..Len(init) : init[o][1] <= ranges[k][1] /\ ranges[k][2] <= init[o][2]
Collapsed == pc = "done" => Pairs(ranges) = {}
BoundLen == Len(ranges) <= MaxLen + 2
=============================================================================
