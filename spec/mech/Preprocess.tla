------------------------------ MODULE Preprocess ------------------------------
(* Transcription of QueryProcessor.preprocess: the recoding of full-width characters, lower_keep_length (lower-casing that
   never changes the number of code points) and, for the case-sensitive models (number, number-with-unit),
   to_lower_term_sensitive, which restores the unit letters kB, K, KB, Kb, M, MB, Mb, MM, G, GB, Gb, B when they follow a
   blank or a digit and end at a word boundary.  Every entity offset the models report is an offset into this string, so
   C01 needs it to have exactly the code points of the query, position by position.
   Stand-ins (TLC keeps ASCII in states): "I" = U+0130 (its lower case is two code points), "F" = full-width digit five.
   KeepLength = TRUE is the code after commit 24ba06712; FALSE the plain str.lower() before it. *)
EXTENDS Integers, Sequences, FiniteSets, TLC, RTStrings

CONSTANTS MaxLen, Alphabet, KeepLength

(* per character: recode, then lower *)
Recode(c) == IF c = "F" THEN "5" ELSE c
Lower1(c) == CASE c = "I" -> "i~"                 \* two code points
               [] c \in {"A", "K", "B", "M", "G"} -> (CASE c = "A" -> "a" [] c = "K" -> "k" [] c = "B" -> "b" [] c = "M" -> "m" [] c = "G" -> "g")
               [] OTHER -> c
RECURSIVE MapStr(_, _)
MapStr(s, k) == IF k > Len(s) THEN "" ELSE Recode(Ch(s, k)) \o MapStr(s, k + 1)
RECURSIVE LowerAll(_, _)
LowerAll(s, k) == IF k > Len(s) THEN "" ELSE Lower1(Ch(s, k)) \o LowerAll(s, k + 1)
RECURSIVE LowerKeep(_, _)
LowerKeep(s, k) == IF k > Len(s) THEN "" ELSE (IF Len(Lower1(Ch(s, k))) = 1 THEN Lower1(Ch(s, k)) ELSE Ch(s, k)) \o LowerKeep(s, k + 1)
LowerKeepLength(s) == IF ~KeepLength THEN LowerAll(s, 1)
                      ELSE IF Len(LowerAll(s, 1)) = Len(s) THEN LowerAll(s, 1) ELSE LowerKeep(s, 1)

(* the special tokens regex  (?<=(\s|\d))(kB|K[Bb]?|M[BbM]?|G[Bb]?|B)\b  *)
IsWord(c) == c \in {"a", "A", "K", "B", "b", "M", "G", "k", "m", "g", "5", "I", "i", "~"}
Boundary(s, p) == p > Len(s) \/ ~IsWord(Ch(s, p))          \* \b after a word character: the next one is not a word character
(* length of the match starting at position p (1-based), 0 if none; alternatives in the order of the pattern, greedy
   optional letter first, then without it *)
TokLen(s, p) ==
  LET c == Ch(s, p)
      n == IF p + 1 <= Len(s) THEN Ch(s, p + 1) ELSE ""
      two(ok) == ok /\ Boundary(s, p + 2)
  IN IF ~(p > 1 /\ Ch(s, p - 1) \in {" ", "5", "F"}) THEN 0
     ELSE IF c = "k" /\ n = "B" /\ Boundary(s, p + 2) THEN 2
     ELSE IF c = "K" THEN (IF two(n \in {"B", "b"}) THEN 2 ELSE IF Boundary(s, p + 1) THEN 1 ELSE 0)
     ELSE IF c = "M" THEN (IF two(n \in {"B", "b", "M"}) THEN 2 ELSE IF Boundary(s, p + 1) THEN 1 ELSE 0)
     ELSE IF c = "G" THEN (IF two(n \in {"B", "b"}) THEN 2 ELSE IF Boundary(s, p + 1) THEN 1 ELSE 0)
     ELSE IF c = "B" /\ Boundary(s, p + 1) THEN 1
     ELSE 0
(* finditer: left to right, non-overlapping; apply_reverse writes the matched text back at match.start() of the INPUT *)
RECURSIVE Restore(_, _, _)
Restore(inp, low, p) ==
  IF p > Len(inp) THEN low
  ELSE LET n == TokLen(inp, p) IN
       IF n = 0 THEN Restore(inp, low, p + 1)
       ELSE Restore(inp, SubSeq(low, 1, p - 1) \o SubSeq(inp, p, p + n - 1) \o SubSeq(low, p + n, Len(low)), p + n)

VARIABLES src, sensitive, out, pc
vars == <<src, sensitive, out, pc>>
Str(f) == LET RECURSIVE J(_) J(n) == IF n = 0 THEN "" ELSE J(n - 1) \o f[n] IN J(Len(f))
Init == /\ src \in { Str(f) : f \in UNION { [1..n -> Alphabet] : n \in 0..MaxLen } } /\ sensitive \in BOOLEAN /\ out = "" /\ pc = "call"
Call == /\ pc = "call"
        /\ LET r == MapStr(src, 1) IN
           out' = IF ~sensitive THEN LowerKeepLength(r)
                  ELSE (IF Len(LowerKeepLength(r)) = Len(r) THEN Restore(r, LowerKeepLength(r), 1) ELSE "!IndexError-or-shift:" \o LowerKeepLength(r))
        /\ pc' = "done" /\ UNCHANGED <<src, sensitive>>
Next == Call
Spec == Init /\ [][Next]_vars

SameLength == pc = "done" => Len(out) = Len(src)
(* position by position: the recoded character, its lower case, or (case-sensitive models) the original letter *)
SamePositions == pc = "done" /\ Len(out) = Len(src) =>
   \A k \in 1..Len(src) : LET c == Recode(Ch(src, k)) IN Ch(out, k) = c \/ (Len(Lower1(c)) = 1 /\ Ch(out, k) = Lower1(c))
(* unit letters survive in the case-sensitive models *)
UnitLettersKept == pc = "done" /\ sensitive /\ Len(out) = Len(src) =>
   \A k \in 1..Len(src) : LET r == MapStr(src, 1) IN TokLen(r, k) > 0 => SubSeq(out, k, k + TokLen(r, k) - 1) = SubSeq(r, k, k + TokLen(r, k) - 1)
=============================================================================
