---------------------------- MODULE DigitalValue ----------------------------
(* Transcription of BaseNumberParser._get_digital_value (digits with grouping / decimal marks and sign -> number),
   power = 1, no fraction slash: the separator pre-pass of the "multi decimal separator" cultures (en, es, fr), the
   non-standard variant swap (es-mx), __skip_non_decimal_separator and the character loop, one action per character.
   Numbers are kept as <<integer part, millionths>> (the loop adds scale * digit, it does not append, so a second
   decimal mark restarts the scale at 0.1 and the digits ADD onto the fraction: "1.2.3" is 1.5).
   SignOffset = TRUE is the code after commit 389faf1f5 (the leading '-' does not count in the distance between the
   start of the number and a separator); FALSE the code before it.
   TLC checks the contract of NumLiteral.tla: a literal written with the culture's own marks (groups of three from
   four digits, optional fraction, optional sign) evaluates to the number written. *)
EXTENDS Integers, Sequences, FiniteSets, TLC, RTStrings

CONSTANTS MaxLen, Alphabet, Cultures, SignOffset

(* config of the number parser: decimal / non-decimal mark of the language, multi = MultiDecimalSeparatorCulture,
   nonstd = the culture is one of the non-standard separator variants of its language (es-mx) *)
Cfg(cul) == CASE cul = "en-us" -> [dec |-> ".", non |-> ",", multi |-> TRUE, nonstd |-> FALSE]
              [] cul = "es-es" -> [dec |-> ",", non |-> ".", multi |-> TRUE, nonstd |-> FALSE]
              [] cul = "es-mx" -> [dec |-> ",", non |-> ".", multi |-> TRUE, nonstd |-> TRUE]
              [] cul = "de-de" -> [dec |-> ",", non |-> ".", multi |-> FALSE, nonstd |-> FALSE]
(* the marks a writer of that culture uses (NumLiteral!DecMark / GrpMark) *)
OwnDec(cul) == IF cul \in {"en-us", "es-mx"} THEN "." ELSE ","
OwnGrp(cul) == IF OwnDec(cul) = "." THEN "," ELSE "."

MAXSIZE == 1000000
At(s, i) == Ch(s, i + 1)                                         \* s[i], 0-based
LastIdx(s, c) == LET S == { i \in 0..(Len(s) - 1) : At(s, i) = c } IN IF S = {} THEN -1 ELSE CHOOSE i \in S : \A j \in S : j <= i
FirstIdx(s, c) == LET S == { i \in 0..(Len(s) - 1) : At(s, i) = c } IN IF S = {} THEN MAXSIZE ELSE CHOOSE i \in S : \A j \in S : i <= j

(* the pre-pass: <<decimal_separator, non_decimal_separator, has_single_separator>> *)
Pre(s, cul) ==
  LET c == Cfg(cul)
      dec0 == IF c.multi /\ c.nonstd THEN c.non ELSE c.dec
      non0 == IF c.multi /\ c.nonstd THEN c.dec ELSE c.non
      ld == LastIdx(s, dec0)  ln == LastIdx(s, non0)  fn == FirstIdx(s, non0)
  IN IF ~c.multi THEN <<c.dec, c.non, FALSE>>
     ELSE IF ((ld < 0 /\ 0 <= ln) \/ (ln < 0 /\ 0 <= ld)) /\ fn = ln THEN <<dec0, non0, TRUE>>
     ELSE IF ld < ln /\ ~(ld = -1 \/ ln = -1) THEN <<non0, dec0, FALSE>>
     ELSE <<dec0, non0, FALSE>>

Skip(cul, ch, distEnd, distStart, single, prev, non) ==
  LET r0 == ch = non IN
  IF Cfg(cul).multi /\ single /\ (distEnd # 4 \/ (prev = "0" /\ distStart = 1) \/ distStart > 3) THEN FALSE ELSE r0

VARIABLES cul, s, i, int, frac, k, hasDec, neg, pc
vars == <<cul, s, i, int, frac, k, hasDec, neg, pc>>
(* int: integer part; frac: millionths; k: the next fractional digit is worth 10^(6-k) millionths *)

Inputs == UNION { [1..n -> Alphabet] : n \in 1..MaxLen }
Str(f) == IF Len(f) = 0 THEN "" ELSE LET RECURSIVE J(_) J(n) == IF n = 0 THEN "" ELSE J(n - 1) \o f[n] IN J(Len(f))
Init == /\ cul \in Cultures /\ s \in { Str(f) : f \in Inputs }
        /\ i = 0 /\ int = 0 /\ frac = 0 /\ k = 0 /\ hasDec = FALSE /\ neg = FALSE /\ pc = "loop"

Pow10(n) == CASE n = 0 -> 1 [] n = 1 -> 10 [] n = 2 -> 100 [] n = 3 -> 1000 [] n = 4 -> 10000 [] n = 5 -> 100000 [] OTHER -> 0
Step ==
  /\ pc = "loop" /\ i < Len(s)
  /\ LET p == Pre(s, cul)
         c == At(s, i)
         prev == IF i > 0 THEN At(s, i - 1) ELSE "~"
         off == IF SignOffset /\ Len(s) > 0 /\ At(s, 0) = "-" THEN 1 ELSE 0
         skippable == Skip(cul, c, Len(s) - i, i - off, p[3], prev, p[2])
     IN IF c = " " \/ skippable THEN UNCHANGED <<int, frac, k, hasDec, neg>>
        ELSE IF IsDigit(c) THEN
               IF hasDec THEN /\ LET f2 == frac + DigitVal(c) * Pow10(6 - k) IN /\ frac' = f2 % 1000000 /\ int' = int + f2 \div 1000000
                              /\ k' = k + 1 /\ UNCHANGED <<hasDec, neg>>
               ELSE int' = int * 10 + DigitVal(c) /\ UNCHANGED <<frac, k, hasDec, neg>>
        ELSE IF c = p[1] \/ (~skippable /\ c = p[2]) THEN hasDec' = TRUE /\ k' = 1 /\ UNCHANGED <<int, frac, neg>>
        ELSE IF c = "-" THEN neg' = TRUE /\ UNCHANGED <<int, frac, k, hasDec>>
        ELSE UNCHANGED <<int, frac, k, hasDec, neg>>
  /\ i' = i + 1 /\ UNCHANGED <<cul, s, pc>>
Done == pc = "loop" /\ i = Len(s) /\ pc' = "done" /\ UNCHANGED <<cul, s, i, int, frac, k, hasDec, neg>>
Next == Step \/ Done
Spec == Init /\ [][Next]_vars

(* ---- the contract: literals written with the culture's own marks *)
RECURSIVE GroupsOK(_, _)
(* after the first 1..3 digits: (grp ddd)* *)
GroupsOK(t, g) == t = "" \/ (Len(t) >= 4 /\ Ch(t, 1) = g /\ AllDigits(SubSeq(t, 2, 4)) /\ GroupsOK(SubSeq(t, 5, Len(t)), g))
IntOK(t, g) == \/ (Len(t) >= 1 /\ AllDigits(t) /\ (Len(t) = 1 \/ Ch(t, 1) # "0"))
               \/ \E n \in 1..3 : Len(t) > n /\ AllDigits(SubSeq(t, 1, n)) /\ Ch(t, 1) # "0" /\ GroupsOK(SubSeq(t, n + 1, Len(t)), g)
WellFormed(t, c) ==
  LET body == IF Len(t) > 0 /\ Ch(t, 1) = "-" THEN SubSeq(t, 2, Len(t)) ELSE t
      d == IndexOf(body, OwnDec(c))
      ip == IF d = 0 THEN body ELSE SubSeq(body, 1, d - 1)
      fp == IF d = 0 THEN "" ELSE SubSeq(body, d + 1, Len(body))
  IN IntOK(ip, OwnGrp(c)) /\ (d = 0 \/ (Len(fp) >= 1 /\ AllDigits(fp)))
RECURSIVE DropCh(_, _)
DropCh(t, g) == IF t = "" THEN "" ELSE (IF Ch(t, 1) = g THEN "" ELSE Ch(t, 1)) \o DropCh(SubSeq(t, 2, Len(t)), g)
Expected(t, c) ==
  LET ng == Len(t) > 0 /\ Ch(t, 1) = "-"
      body == IF ng THEN SubSeq(t, 2, Len(t)) ELSE t
      d == IndexOf(body, OwnDec(c))
      ip == DropCh(IF d = 0 THEN body ELSE SubSeq(body, 1, d - 1), OwnGrp(c))
      fp == IF d = 0 THEN "" ELSE SubSeq(body, d + 1, Len(body))
  IN <<ng, ToNat(ip), ToNat(fp) * Pow10(6 - Len(fp))>>
MeetsLiteral == (pc = "done" /\ WellFormed(s, cul)) => <<neg, int, frac>> = Expected(s, cul)
=============================================================================
