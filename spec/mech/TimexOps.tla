----------------------------- MODULE TimexOps -----------------------------
(* Transcription of datatypes_timex_expression: TimexParsing.parse_string, the TimexRegex table
   (ordered), Timex.assign_properties, TimexInference.infer and TimexFormat.format with its
   helpers, in the order of the tests the Python code makes (including truthiness tests that
   treat 0 as absent).  One action per pipeline step; the pipeline is run twice (s -> fields ->
   types -> text -> fields -> types -> text) so that the contract of Timex.tla can be checked on
   the transcription itself. *)
EXTENDS Timex

Empty == <<>>
IntS(s) == ToString(ToNat(s))
Sub(s, i, j) == SubSeq(s, i, j)

(* ---- TimexRegex.timexRegex['date'], first match wins *)
ExtractDate(s) ==
  IF MatchPat("dddd-dd-dd", s) THEN ("year" :> IntS(Sub(s, 1, 4))) @@ ("month" :> IntS(Sub(s, 6, 7))) @@ ("day_of_month" :> IntS(Sub(s, 9, 10)))
  ELSE IF MatchPat("XXXX-WXX-d", s) THEN ("day_of_week" :> IntS(Sub(s, 10, 10)))
  ELSE IF MatchPat("XXXX-dd-dd", s) THEN ("month" :> IntS(Sub(s, 6, 7))) @@ ("day_of_month" :> IntS(Sub(s, 9, 10)))
  ELSE IF MatchPat("dddd", s) THEN ("year" :> IntS(s))
  ELSE IF MatchPat("dddd-dd", s) THEN ("year" :> IntS(Sub(s, 1, 4))) @@ ("month" :> IntS(Sub(s, 6, 7)))
  ELSE IF s \in Seasons THEN ("season" :> s)
  ELSE IF Len(s) = 7 /\ MatchPat("dddd-", Sub(s, 1, 5)) /\ Sub(s, 6, 7) \in Seasons THEN ("year" :> IntS(Sub(s, 1, 4))) @@ ("season" :> Sub(s, 6, 7))
  ELSE IF MatchPat("dddd-Wdd", s) THEN ("year" :> IntS(Sub(s, 1, 4))) @@ ("week_of_year" :> IntS(Sub(s, 7, 8)))
  ELSE IF MatchPat("dddd-Wdd-WE", s) THEN ("year" :> IntS(Sub(s, 1, 4))) @@ ("week_of_year" :> IntS(Sub(s, 7, 8))) @@ ("weekend" :> "true")
  ELSE IF MatchPat("XXXX-dd", s) THEN ("month" :> IntS(Sub(s, 6, 7)))
  ELSE IF MatchPat("XXXX-dd-Wdd", s) THEN ("month" :> IntS(Sub(s, 6, 7))) @@ ("week_of_month" :> IntS(Sub(s, 10, 11)))
  ELSE IF MatchPat("XXXX-dd-WXX-d-d", s) THEN ("month" :> IntS(Sub(s, 6, 7))) @@ ("week_of_month" :> IntS(Sub(s, 13, 13))) @@ ("day_of_week" :> IntS(Sub(s, 15, 15)))
  ELSE Empty

(* ---- TimexRegex.timexRegex['time']; the hour/minute/second setters share one Time object, so
   assigning the hour alone makes minute and second 0 *)
ExtractTime(s) ==
  IF MatchPat("Tdd", s) THEN TimeDen(ToNat(Sub(s, 2, 3)), 0, 0)
  ELSE IF MatchPat("Tdd:dd", s) THEN TimeDen(ToNat(Sub(s, 2, 3)), ToNat(Sub(s, 5, 6)), 0)
  ELSE IF MatchPat("Tdd:dd:dd", s) THEN TimeDen(ToNat(Sub(s, 2, 3)), ToNat(Sub(s, 5, 6)), ToNat(Sub(s, 8, 9)))
  ELSE IF Len(s) = 3 /\ Sub(s, 1, 1) = "T" /\ Sub(s, 2, 3) \in PartsOfDay THEN ("part_of_day" :> Sub(s, 2, 3))
  ELSE Empty

(* ---- amount: \d*\.?\d+ *)
DotCount(a) == Cardinality({i \in 1..Len(a) : Ch(a, i) = "."})
IsAmount(a) == /\ Len(a) >= 1
               /\ IsDigit(Ch(a, Len(a)))
               /\ \A i \in 1..Len(a) : IsDigit(Ch(a, i)) \/ Ch(a, i) = "."
               /\ DotCount(a) <= 1
ExtractPeriod(s) ==
  LET n == Len(s) IN
  IF n >= 3 /\ Ch(s, 1) = "P" /\ Ch(s, n) \in DateUnits /\ IsAmount(Sub(s, 2, n - 1))
    THEN (DurKey(Ch(s, n), FALSE) :> AmountDen(Sub(s, 2, n - 1)))
  ELSE IF n >= 4 /\ Sub(s, 1, 2) = "PT" /\ Ch(s, n) \in TimeUnits /\ IsAmount(Sub(s, 3, n - 1))
    THEN (DurKey(Ch(s, n), TRUE) :> AmountDen(Sub(s, 3, n - 1)))
  ELSE Empty

(* ---- TimexParsing.parse_string *)
ExtractDateTime(s) ==
  LET t == IndexOf(s, "T") IN
  IF t = 0 THEN ExtractDate(s)
  ELSE ExtractDate(Sub(s, 1, t - 1)) @@ ExtractTime(Sub(s, t, Len(s)))

ParseFields(s) ==
  IF s = "PRESENT_REF" THEN ("now" :> "true")
  ELSE IF StartsWith(s, "P") THEN ExtractPeriod(s)
  ELSE IF StartsWith(s, "(") /\ EndsWith(s, ")") THEN ("unmodelled" :> "triple")
  ELSE ExtractDateTime(s)

(* ---- TimexInference.infer *)
NonZeroAmount(a) == \E i \in 1..Len(a) : Ch(a, i) \in (Digits \ {"0"})
Truthy(f, k) == Has(f, k) /\ f[k] # "0" /\ f[k] # ""
DurKeys == {"years", "months", "weeks", "days", "hours", "minutes", "seconds"}
IsDuration(f) == \E k \in DurKeys : Has(f, k) /\ NonZeroAmount(f[k])
IsTime(f) == Has(f, "hour") /\ Has(f, "minute") /\ Has(f, "second")
IsDate(f) == (Has(f, "month") /\ Has(f, "day_of_month")) \/ Truthy(f, "day_of_week")
IsTimeRange(f) == Has(f, "part_of_day")
IsDateRange(f) == \/ (Has(f, "year") /\ ~Has(f, "day_of_month"))
                  \/ (Has(f, "month") /\ ~Has(f, "day_of_month"))
                  \/ Truthy(f, "season") \/ Truthy(f, "week_of_year") \/ Truthy(f, "week_of_month")
IsDefinite(f) == Has(f, "year") /\ Has(f, "month") /\ Has(f, "day_of_month")

Infer(f) ==
  LET t0 == (IF Has(f, "now") THEN {"present"} ELSE {})
            \cup (IF IsDefinite(f) THEN {"definite"} ELSE {})
            \cup (IF IsDate(f) THEN {"date"} ELSE {})
            \cup (IF IsDateRange(f) THEN {"daterange"} ELSE {})
            \cup (IF IsDuration(f) THEN {"duration"} ELSE {})
            \cup (IF IsTime(f) THEN {"time"} ELSE {})
            \cup (IF IsTimeRange(f) THEN {"timerange"} ELSE {})
      t1 == t0 \cup (IF "present" \in t0 THEN {"date", "time"} ELSE {})
      t2 == t1 \cup (IF "time" \in t1 /\ "duration" \in t1 THEN {"timerange"} ELSE {})
      t3 == t2 \cup (IF "date" \in t2 /\ "time" \in t2 THEN {"datetime"} ELSE {})
      t4 == t3 \cup (IF "date" \in t3 /\ "duration" \in t3 THEN {"daterange"} ELSE {})
      t5 == t4 \cup (IF "datetime" \in t4 /\ "duration" \in t4 THEN {"datetimerange"} ELSE {})
      t6 == t5 \cup (IF "date" \in t5 /\ "timerange" \in t5 THEN {"datetimerange"} ELSE {})
  IN t6

(* ---- TimexFormat *)
RJust(s, n) == IF Len(s) >= n THEN s ELSE SubSeq("0000", 1, n - Len(s)) \o s

FormatDuration(f) ==
  IF Has(f, "years") /\ NonZeroAmount(f["years"]) THEN "P" \o f["years"] \o "Y"
  ELSE IF Has(f, "months") /\ NonZeroAmount(f["months"]) THEN "P" \o f["months"] \o "M"
  ELSE IF Has(f, "weeks") /\ NonZeroAmount(f["weeks"]) THEN "P" \o f["weeks"] \o "W"
  ELSE IF Has(f, "days") /\ NonZeroAmount(f["days"]) THEN "P" \o f["days"] \o "D"
  ELSE IF Has(f, "hours") /\ NonZeroAmount(f["hours"]) THEN "PT" \o f["hours"] \o "H"
  ELSE IF Has(f, "minutes") /\ NonZeroAmount(f["minutes"]) THEN "PT" \o f["minutes"] \o "M"
  ELSE IF Has(f, "seconds") /\ NonZeroAmount(f["seconds"]) THEN "PT" \o f["seconds"] \o "S"
  ELSE ""

FormatTime(f) ==
  IF f["minute"] = "0" /\ f["second"] = "0" THEN "T" \o RJust(f["hour"], 2)
  ELSE IF f["second"] = "0" THEN "T" \o RJust(f["hour"], 2) \o ":" \o RJust(f["minute"], 2)
  ELSE "T" \o RJust(f["hour"], 2) \o ":" \o RJust(f["minute"], 2) \o ":" \o RJust(f["second"], 2)

(* `(year and month and day_of_month) is not None`: None only if a falsy None short-circuits;
   a 0 value short-circuits to 0, which "is not None" *)
AndChainNotNone(f) ==
  IF ~Has(f, "year") THEN FALSE
  ELSE IF f["year"] = "0" THEN TRUE
  ELSE IF ~Has(f, "month") THEN FALSE
  ELSE IF f["month"] = "0" THEN TRUE
  ELSE Has(f, "day_of_month")

FormatDate(f) ==
  IF AndChainNotNone(f) /\ Has(f, "month") /\ Has(f, "day_of_month")
    THEN RJust(f["year"], 4) \o "-" \o RJust(f["month"], 2) \o "-" \o RJust(f["day_of_month"], 2)
  ELSE IF Has(f, "month") /\ Has(f, "day_of_month") THEN "XXXX-" \o RJust(f["month"], 2) \o "-" \o RJust(f["day_of_month"], 2)
  ELSE IF Has(f, "day_of_week") THEN "XXXX-WXX-" \o f["day_of_week"]
  ELSE ""

(* 'XXXX-{}-W{}'.format(month, fixed_format_number(week_of_month, 2)) -- since the fix commit;
   before it: 'XXXX-{}-WXX-{}' (kept as the regression configuration MC_Timex_prefix) *)
CONSTANT WeekOfMonthFixed
WeekOfMonthText(f) == IF WeekOfMonthFixed THEN "XXXX-" \o RJust(f["month"], 2) \o "-W" \o RJust(f["week_of_month"], 2)
                      ELSE "XXXX-" \o RJust(f["month"], 2) \o "-WXX-" \o f["week_of_month"]

FormatDateRange(f) ==
  IF Has(f, "year") /\ Has(f, "week_of_year") /\ Has(f, "weekend") THEN RJust(f["year"], 4) \o "-W" \o RJust(f["week_of_year"], 2) \o "-WE"
  ELSE IF Has(f, "year") /\ Has(f, "week_of_year") THEN RJust(f["year"], 4) \o "-W" \o RJust(f["week_of_year"], 2)
  ELSE IF Has(f, "year") /\ Has(f, "season") THEN RJust(f["year"], 4) \o "-" \o f["season"]
  ELSE IF Truthy(f, "season") THEN f["season"]
  ELSE IF Has(f, "year") /\ Has(f, "month") THEN RJust(f["year"], 4) \o "-" \o RJust(f["month"], 2)
  ELSE IF Truthy(f, "year") THEN RJust(f["year"], 4)
  ELSE IF Has(f, "month") /\ Has(f, "week_of_month") /\ Has(f, "day_of_week")
    THEN "XXXX-" \o RJust(f["month"], 2) \o "-WXX-" \o f["week_of_month"] \o "-" \o f["day_of_week"]
  ELSE IF Has(f, "month") /\ Has(f, "week_of_month") THEN WeekOfMonthText(f)
  ELSE IF Truthy(f, "month") THEN "XXXX-" \o RJust(f["month"], 2)
  ELSE ""

FormatTimeRange(f) == IF Has(f, "part_of_day") THEN "T" \o f["part_of_day"] ELSE ""

Format(f) ==
  LET ty == Infer(f) IN
  IF "present" \in ty THEN "PRESENT_REF"
  ELSE IF ({"datetimerange", "daterange", "timerange"} \cap ty # {}) /\ "duration" \in ty THEN "UNMODELLED-RANGE"
  ELSE IF "datetimerange" \in ty THEN FormatDate(f) \o FormatTimeRange(f)
  ELSE IF "daterange" \in ty THEN FormatDateRange(f)
  ELSE IF "timerange" \in ty THEN FormatTimeRange(f)
  ELSE IF "datetime" \in ty THEN FormatDate(f) \o FormatTime(f)
  ELSE IF "duration" \in ty THEN FormatDuration(f)
  ELSE IF "date" \in ty THEN FormatDate(f)
  ELSE IF "time" \in ty THEN FormatTime(f)
  ELSE ""
=============================================================================
