------------------------------ MODULE MergeMech ------------------------------
(* Transcriptions of the three places where candidate matches are merged into entities:
     "sweep":  the matched[] union sweep of BaseNumberExtractor.extract (also used by the sequence
               and percentage extractors): mark every matched position, emit maximal runs, keep a
               run only if one single match equals it;
     "tokens": merge_all_tokens of the date-time extractors (tokens sorted by start; a token is
               dropped if an earlier kept token contains it or it starts strictly inside one, and
               replaces a kept token it contains);
     "addto":  BaseMergedExtractor.add_to (a candidate is appended if it overlaps nothing, replaces
               the kept entities it strictly covers, and is dropped if it only partially overlaps).
   Spans are <<start, end>> with INCLUSIVE end for sweep / addto (ExtractResult.start/.end) and
   EXCLUSIVE end for tokens (Token.start/.end), exactly as in the code.  One action per loop
   iteration.  TLC checks what C12 needs of each mechanism for every input within the bounds. *)
EXTENDS Integers, Sequences, FiniteSets, TLC

CONSTANTS N,            \* positions 0..N-1
          MaxItems,     \* size of the inputs (matches, tokens, candidates)
          Mech,         \* "sweep" | "tokens" | "addto"
          DropStraddler \* addto: TRUE = a candidate that partially overlaps a kept entity is never added (after the fix
                        \* commit 1d34b0830); FALSE = it replaces the entities it covers even so (before)

Pos == 0..(N - 1)
SpansIncl == { s \in Pos \X Pos : s[1] <= s[2] }
SpansExcl == { s \in Pos \X (1..N) : s[1] < s[2] }
RECURSIVE SeqsOf(_, _)
SeqsOf(S, n) == IF n = 0 THEN {<<>>} ELSE LET R == SeqsOf(S, n - 1) IN R \cup { Append(q, x) : q \in { t \in R : Len(t) = n - 1 }, x \in S }

VARIABLES input,     \* sweep: set of inclusive spans; tokens: sequence sorted by start; addto: <<kept, candidates>>
          work,      \* mechanism-specific working record
          out, pc
vars == <<input, work, out, pc>>

(* ------------------------------------------------------------------ sweep *)
Matched(ms, p) == \E m \in ms : m[1] <= p /\ p <= m[2]
SweepInit == /\ input \in { X \in SUBSET SpansIncl : Cardinality(X) <= MaxItems /\ X # {} }
             /\ work = [i |-> 0, last |-> -1] /\ out = <<>> /\ pc = "scan"
SweepStep ==
  /\ pc = "scan" /\ work.i < N
  /\ LET i == work.i IN
       IF ~Matched(input, i) THEN work' = [i |-> i + 1, last |-> i] /\ UNCHANGED out
       ELSE IF i + 1 = N \/ ~Matched(input, i + 1)
            THEN LET start == work.last + 1 IN
                 /\ out' = IF <<start, i>> \in input THEN Append(out, <<start, i>>) ELSE out     \* src_match: a single match equals the run
                 /\ work' = [work EXCEPT !.i = i + 1]
            ELSE work' = [work EXCEPT !.i = i + 1] /\ UNCHANGED out
  /\ UNCHANGED <<input, pc>>
SweepDone == pc = "scan" /\ work.i = N /\ pc' = "done" /\ UNCHANGED <<input, work, out>>

(* ------------------------------------------------------------------ tokens (exclusive ends) *)
SortedByStart(q) == \A a, b \in 1..Len(q) : a < b => q[a][1] <= q[b][1]
TokInit == /\ input \in { q \in SeqsOf(SpansExcl, MaxItems) : Len(q) >= 1 /\ SortedByStart(q) }
           /\ work = [k |-> 1] /\ out = <<>> /\ pc = "merge"
(* one token against the kept list, with the code's early exit: scanning stops once add = FALSE *)
RECURSIVE Against(_, _, _, _)
Against(tok, kept, idx, add) ==
  IF idx > Len(kept) \/ ~add THEN <<kept, add>>
  ELSE LET m == kept[idx]
           a1 == IF tok[1] >= m[1] /\ tok[2] <= m[2] THEN FALSE ELSE add
           a2 == IF m[1] < tok[1] /\ tok[1] < m[2] THEN FALSE ELSE a1
           repl == tok[1] <= m[1] /\ tok[2] >= m[2]
           a3 == IF repl THEN FALSE ELSE a2
           kept2 == IF repl THEN [kept EXCEPT ![idx] = tok] ELSE kept
       IN Against(tok, kept2, idx + 1, a3)
TokStep == /\ pc = "merge" /\ work.k <= Len(input)
           /\ LET r == Against(input[work.k], out, 1, TRUE) IN out' = IF r[2] THEN Append(r[1], input[work.k]) ELSE r[1]
           /\ work' = [k |-> work.k + 1] /\ UNCHANGED <<input, pc>>
TokDone == pc = "merge" /\ work.k = Len(input) + 1 /\ pc' = "done" /\ UNCHANGED <<input, work, out>>

(* ------------------------------------------------------------------ addto (inclusive ends) *)
Overlap(a, b) == ~(a[1] > b[2]) /\ ~(b[1] > a[2])
(* destination.cover(value): the value strictly contains the destination *)
CoveredBy(d, v) == (v[1] < d[1] /\ v[2] >= d[2]) \/ (v[1] <= d[1] /\ v[2] > d[2])
DisjointSeq(q) == \A a, b \in 1..Len(q) : a # b => ~Overlap(q[a], q[b])
AddInit == /\ input \in { <<kept, cands>> \in SeqsOf(SpansIncl, 2) \X SeqsOf(SpansIncl, MaxItems) : DisjointSeq(kept) /\ Len(cands) >= 1 }
           /\ work = [k |-> 1] /\ out = input[1] /\ pc = "add"
AddStep ==
  /\ pc = "add" /\ work.k <= Len(input[2])
  /\ LET v == input[2][work.k]
         found == \E i \in 1..Len(out) : Overlap(out[i], v)
         cov == { i \in 1..Len(out) : Overlap(out[i], v) /\ CoveredBy(out[i], v) }
         partial == \E i \in 1..Len(out) : Overlap(out[i], v) /\ ~CoveredBy(out[i], v)
     IN IF ~found THEN out' = Append(out, v)
        ELSE IF cov # {} /\ ~(DropStraddler /\ partial) THEN
             LET first == CHOOSE i \in cov : \A j \in cov : i <= j
                 rest == SelectSeq([i \in 1..Len(out) |-> <<i, out[i]>>], LAMBDA x : x[1] \notin cov)
                 restSpans == [i \in 1..Len(rest) |-> rest[i][2]]
                 (* temp_dst.insert(first_index, value): Python insert at index first-1 (0-based first_index) of the filtered list *)
                 pos == IF first - 1 <= Len(restSpans) THEN first - 1 ELSE Len(restSpans)
             IN out' = SubSeq(restSpans, 1, pos) \o <<v>> \o SubSeq(restSpans, pos + 1, Len(restSpans))
        ELSE UNCHANGED out
  /\ work' = [k |-> work.k + 1] /\ UNCHANGED <<input, pc>>
AddDone == pc = "add" /\ work.k = Len(input[2]) + 1 /\ pc' = "done" /\ UNCHANGED <<input, work, out>>

Init == CASE Mech = "sweep" -> SweepInit [] Mech = "tokens" -> TokInit [] Mech = "addto" -> AddInit
Next == SweepStep \/ SweepDone \/ TokStep \/ TokDone \/ AddStep \/ AddDone
Spec == Init /\ [][Next]_vars

(* ------------------------------------------------------------------ what C12 needs *)
(* sweep: emitted runs are in bounds, maximal runs of matched positions, pairwise disjoint and not adjacent *)
SweepOK == (Mech = "sweep" /\ pc = "done") =>
  /\ \A k \in 1..Len(out) : out[k][1] \in Pos /\ out[k][2] \in Pos /\ \A p \in out[k][1]..out[k][2] : Matched(input, p)
  /\ \A k \in 1..Len(out) : (out[k][1] = 0 \/ ~Matched(input, out[k][1] - 1)) /\ (out[k][2] = N - 1 \/ ~Matched(input, out[k][2] + 1))
  /\ \A a, b \in 1..Len(out) : a < b => out[a][2] + 1 < out[b][1]
(* tokens: results pairwise disjoint (exclusive ends) *)
TokDisjoint == (Mech = "tokens" /\ pc = "done") => \A a, b \in 1..Len(out) : a # b => (out[a][2] <= out[b][1] \/ out[b][2] <= out[a][1])
(* addto: disjointness is preserved when a candidate that partially overlaps a kept entity is never added
   (DropStraddler, the code after the fix).  Before the fix it held only under the environment assumption that no
   candidate strictly covers one kept entity while partially overlapping another (EnvNoStraddle); without the
   assumption TLC finds the counterexample that recognize_datetime('I said 2000-07-01 yesterday.') showed in the code *)
Straddles(q, v) == \E i, j \in 1..Len(q) : i # j /\ Overlap(q[i], v) /\ CoveredBy(q[i], v) /\ Overlap(q[j], v) /\ ~CoveredBy(q[j], v)
AddDisjoint == Mech = "addto" => DisjointSeq(out)
NoStraddleSoFar == Mech = "addto" => \A k \in 1..(work.k - 1) : TRUE
EnvNoStraddle == Mech # "addto" \/ work.k > Len(input[2]) \/ ~Straddles(out, input[2][work.k])
=============================================================================
