------------------------------ MODULE ChoiceMatch ------------------------------
(* Transcription of ChoiceExtractor.match_value (scoring of one regex match against the token
   list of the query, starting at each position) and of the only_top_match selection, including
   StringUtility.index_of, which returns 1 - not -1 - when the token is absent.
   Scores are kept as exact rationals <<numerator, denominator>> of the part after 0.4 + 0.6 * x.
   TLC explores every source / match token list within the bounds and checks that the score the
   model would report lies in [0, 1]: it does not (a token that is absent is "found" at index 1,
   which can make the deviation negative), which is why the property's score clause is only safe
   as long as the parser discards the extractor's score (it reports 0.0). *)
EXTENDS Integers, Sequences, FiniteSets, TLC

CONSTANTS Alphabet, MaxSource, MaxMatch, MaxDistance, IndexOfFixed

RECURSIVE SeqsOver(_, _)
SeqsOver(S, n) == IF n = 0 THEN {<<>>} ELSE LET R == SeqsOver(S, n - 1) IN R \cup { Append(q, x) : q \in { t \in R : Len(t) = n - 1 }, x \in S }

(* list.index(token, position) (0-based) or the failure value *)
IndexOf(src, tok, pos) ==
  LET hits == { i \in pos..(Len(src) - 1) : src[i + 1] = tok } IN
  IF hits # {} THEN CHOOSE i \in hits : \A j \in hits : i <= j
  ELSE IF IndexOfFixed THEN -1 ELSE 1

VARIABLES src, mat, start, k, pos, matched, deviation, pc, best
vars == <<src, mat, start, k, pos, matched, deviation, pc, best>>

Init == /\ src \in (SeqsOver(Alphabet, MaxSource) \ {<<>>}) /\ mat \in (SeqsOver(Alphabet, MaxMatch) \ {<<>>})
        /\ start = 0 /\ k = 1 /\ pos = 0 /\ matched = 0 /\ deviation = 0 /\ pc = "token" /\ best = <<0, 1>>

(* one iteration of `for match_token in match` *)
TokenStep ==
  /\ pc = "token" /\ k <= Len(mat)
  /\ LET p == IndexOf(src, mat[k], pos) IN
       IF p >= 0
       THEN LET distance == IF matched > 0 THEN p - pos ELSE 0 IN
            IF distance <= MaxDistance
            THEN matched' = matched + 1 /\ deviation' = deviation + distance /\ pos' = p + 1
            ELSE UNCHANGED <<matched, deviation, pos>>
       ELSE UNCHANGED <<matched, deviation, pos>>
  /\ k' = k + 1 /\ UNCHANGED <<src, mat, start, pc, best>>

(* score = 0.4 + 0.6 * (matched/len(match)) * (matched/(matched+deviation)) * (matched/len(source)); kept as the
   rational x = num/den of the factor after 0.6; only complete matches score (allow_partial_match = False) *)
Better(a, b) == a[1] * b[2] > b[1] * a[2]
(* matched / (matched + total_deviation) divides by zero when the (possibly negative) deviation cancels the matches *)
RaiseStep ==
  /\ pc = "token" /\ k = Len(mat) + 1 /\ matched > 0 /\ matched = Len(mat) /\ matched + deviation = 0
  /\ pc' = "raised" /\ UNCHANGED <<src, mat, start, k, pos, matched, deviation, best>>
ScoreStep ==
  /\ pc = "token" /\ k = Len(mat) + 1 /\ ~(matched > 0 /\ matched = Len(mat) /\ matched + deviation = 0)
  /\ LET sc == IF matched > 0 /\ matched = Len(mat) /\ matched + deviation # 0
               THEN <<matched * matched * matched, Len(mat) * (matched + deviation) * Len(src)>> ELSE <<0, 1>>
         norm == IF sc[2] < 0 THEN <<0 - sc[1], 0 - sc[2]>> ELSE sc
     IN best' = IF Better(norm, best) THEN norm ELSE best
  /\ IF start + 1 < Len(src)
     THEN start' = start + 1 /\ pos' = start + 1 /\ k' = 1 /\ matched' = 0 /\ deviation' = 0 /\ UNCHANGED pc
     ELSE pc' = "done" /\ UNCHANGED <<start, pos, k, matched, deviation>>
  /\ UNCHANGED <<src, mat>>
Next == TokenStep \/ ScoreStep \/ RaiseStep
Spec == Init /\ [][Next]_vars

(* top score x in [0, 1]  <=>  0.4 + 0.6 x in [0.4, 1] *)
ScoreInUnit == best[1] >= 0 /\ best[1] <= best[2]
NoRaise == pc # "raised"
=============================================================================
