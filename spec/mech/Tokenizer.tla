----------------------------- MODULE Tokenizer -----------------------------
(* SimpleTokenizer.tokenize and NumberWithUnitTokenizer.tokenize as character-at-a-time
   machines (in_token, token_start, tokens), one action per loop iteration, over class strings.
   TLC checks that the machines compute the functional tokenisation of Matcher.tla and that
   their output satisfies the statement's token conditions, for every class string up to MaxLen. *)
EXTENDS Matcher

CONSTANTS MaxLen, Tokenizers

RECURSIVE StringsUpTo(_)
StringsUpTo(n) == IF n = 0 THEN {<<>>}
                  ELSE LET S == StringsUpTo(n - 1) IN S \cup { Append(s, c) : s \in { t \in S : Len(t) = n - 1 }, c \in Classes }

VARIABLES tk, cls, i, inTok, tokStart, tokens, pc
vars == <<tk, cls, i, inTok, tokStart, tokens, pc>>

Init == /\ tk \in Tokenizers
        /\ cls \in StringsUpTo(MaxLen)
        /\ i = 1 /\ inTok = FALSE /\ tokStart = 0 /\ tokens = <<>>
        /\ pc = "loop"

Emit(ts, s, len) == Append(ts, <<s, len>>)

(* branch 1: white space *)
StepSpace == /\ pc = "loop" /\ i <= Len(cls) /\ cls[i] = "sp"
             /\ tokens' = IF inTok THEN Emit(tokens, tokStart, (i - 1) - tokStart) ELSE tokens
             /\ inTok' = FALSE
             /\ i' = i + 1
             /\ UNCHANGED <<tk, cls, tokStart, pc>>
(* branch 2: a character that is a token by itself *)
StepSingle == /\ pc = "loop" /\ i <= Len(cls) /\ cls[i] # "sp" /\ ~Word(tk, cls[i])
              /\ tokens' = Emit(IF inTok THEN Emit(tokens, tokStart, (i - 1) - tokStart) ELSE tokens, i - 1, 1)
              /\ inTok' = FALSE
              /\ i' = i + 1
              /\ UNCHANGED <<tk, cls, tokStart, pc>>
(* branch 3: a word character; the number-with-unit tokenizer may split before it *)
StepWord == /\ pc = "loop" /\ i <= Len(cls) /\ Word(tk, cls[i])
            /\ IF inTok /\ i > 1 /\ Split(tk, cls[i - 1], cls[i])
               THEN tokens' = Emit(tokens, tokStart, (i - 1) - tokStart) /\ tokStart' = i - 1
               ELSE IF ~inTok THEN tokStart' = i - 1 /\ UNCHANGED tokens
               ELSE UNCHANGED <<tokens, tokStart>>
            /\ inTok' = TRUE
            /\ i' = i + 1
            /\ UNCHANGED <<tk, cls, pc>>
Finish == /\ pc = "loop" /\ i = Len(cls) + 1
          /\ tokens' = IF inTok THEN Emit(tokens, tokStart, Len(cls) - tokStart) ELSE tokens
          /\ pc' = "done"
          /\ UNCHANGED <<tk, cls, i, inTok, tokStart>>
Next == StepSpace \/ StepSingle \/ StepWord \/ Finish
Spec == Init /\ [][Next]_vars

MechEqualsContract == pc = "done" => tokens = ContractTokens(tk, cls)
(* the statement's conditions, on class strings *)
MechTokensOK == pc = "done" =>
  /\ \A k \in 1..Len(tokens) : tokens[k][1] >= 0 /\ tokens[k][2] >= 1 /\ tokens[k][1] + tokens[k][2] <= Len(cls)
  /\ \A k \in 1..(Len(tokens) - 1) : tokens[k][1] + tokens[k][2] <= tokens[k + 1][1]
  /\ \A p \in 1..Len(cls) : IF cls[p] = "sp" THEN \A k \in 1..Len(tokens) : ~(tokens[k][1] < p /\ p <= tokens[k][1] + tokens[k][2])
                             ELSE Cardinality({k \in 1..Len(tokens) : tokens[k][1] < p /\ p <= tokens[k][1] + tokens[k][2]}) = 1
=============================================================================
