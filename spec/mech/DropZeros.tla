------------------------------ MODULE DropZeros ------------------------------
(* Transcription of BaseIpParser.drop_leading_zeros (the resolved value of an IP address), one action per character:
   `number` collects the characters of the current group; at a separator ('.' or ':') or at the last character the group
   is written without its leading zeros ("0" for a group of zeros).
   TLC checks, for every string over the alphabet up to MaxLen (not only well-formed addresses), what C13 needs from this
   step: the separators are untouched, every group keeps its value, no written group has a leading zero, and the
   function is idempotent. *)
EXTENDS Integers, Sequences, FiniteSets, TLC, RTStrings

CONSTANTS MaxLen, Alphabet

IsSep(c) == c = "." \/ c = ":"
RECURSIVE LStrip0(_)
LStrip0(s) == IF Len(s) > 0 /\ Ch(s, 1) = "0" THEN LStrip0(SubSeq(s, 2, Len(s))) ELSE s
Canon(g) == IF g = "0" THEN g ELSE (IF LStrip0(g) = "" THEN "0" ELSE LStrip0(g))

VARIABLES text, i, number, result, pc
vars == <<text, i, number, result, pc>>
Str(f) == LET RECURSIVE J(_) J(n) == IF n = 0 THEN "" ELSE J(n - 1) \o f[n] IN J(Len(f))
Init == /\ text \in { Str(f) : f \in UNION { [1..n -> Alphabet] : n \in 0..MaxLen } }
        /\ i = 0 /\ number = "" /\ result = "" /\ pc = "loop"
Step == /\ pc = "loop" /\ i < Len(text)
        /\ LET c == Ch(text, i + 1) IN
           IF IsSep(c) THEN /\ result' = result \o (IF number # "" THEN Canon(number) ELSE "") \o c
                            /\ number' = ""
           ELSE LET n2 == number \o c IN
                IF i = Len(text) - 1 THEN result' = result \o Canon(n2) /\ number' = Canon(n2)
                ELSE number' = n2 /\ UNCHANGED result
        /\ i' = i + 1 /\ UNCHANGED <<text, pc>>
Done == pc = "loop" /\ i = Len(text) /\ pc' = "done" /\ UNCHANGED <<text, i, number, result>>
Next == Step \/ Done
Spec == Init /\ [][Next]_vars

(* ---- the functional reading: groups between separators *)
RECURSIVE Groups(_, _, _)
(* <<group, separator-or-"">> pairs from left to right *)
Groups(s, k, cur) == IF k > Len(s) THEN <<<<cur, "">>>>
                     ELSE IF IsSep(Ch(s, k)) THEN <<<<cur, Ch(s, k)>>>> \o Groups(s, k + 1, "")
                     ELSE Groups(s, k + 1, cur \o Ch(s, k))
G(s) == Groups(s, 1, "")
SameShape == pc = "done" => Len(G(result)) = Len(G(text)) /\ \A k \in 1..Len(G(text)) : G(result)[k][2] = G(text)[k][2]
SameValues == pc = "done" => Len(G(result)) = Len(G(text)) /\ \A k \in 1..Len(G(text)) :
                 LET a == G(text)[k][1] b == G(result)[k][1] IN (a = "" /\ b = "") \/ (a # "" /\ b = Canon(a))
NoLeadingZero == pc = "done" => \A k \in 1..Len(G(result)) : LET b == G(result)[k][1] IN Len(b) <= 1 \/ Ch(b, 1) # "0"
=============================================================================
