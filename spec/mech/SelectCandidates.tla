--------------------------- MODULE SelectCandidates ---------------------------
(* Transcription of NumberWithUnitExtractor._select_candidates: number-with-unit candidates sorted
   by start, each flagged "unit is a prefix" or "unit is a suffix"; a left-to-right pass keeps a
   prefix reading, a right-to-left pass a suffix reading, the longer list wins.
   ExclusiveEnds = TRUE : ends compared as start + length (after the fix commit, and as in .NET)
   ExclusiveEnds = FALSE: ExtractResult.end (inclusive) used in their place (before the fix)
   The no-space-unit filter and the separately appended units are not modelled (they only remove
   candidates / append entities that cannot overlap a candidate).
   TLC checks for every candidate list within the bounds that the selected candidates are
   pairwise disjoint. *)
EXTENDS Integers, Sequences, FiniteSets, TLC

CONSTANTS N, MaxCands, ExclusiveEnds

Pos == 0..(N - 1)
Spans == { s \in Pos \X (1..N) : s[1] + s[2] <= N }          \* <<start, length>>
Cand == { [start |-> s[1], length |-> s[2], prefix |-> p] : s \in Spans, p \in BOOLEAN }
RECURSIVE SeqsOver(_, _)
SeqsOver(S, n) == IF n = 0 THEN {<<>>} ELSE LET R == SeqsOver(S, n - 1) IN R \cup { Append(q, x) : q \in { t \in R : Len(t) = n - 1 }, x \in S }
Sorted(q) == \A a, b \in 1..Len(q) : a < b => q[a].start <= q[b].start

EndX(c) == IF ExclusiveEnds THEN c.start + c.length ELSE c.start + c.length - 1

VARIABLES ers, phase, i, curEnd, prefixRes, suffixRes, out
vars == <<ers, phase, i, curEnd, prefixRes, suffixRes, out>>

(* environment: the candidates of a text made of one-position tokens, each a number "N" or a unit "U":
   a number followed by a unit is a suffix candidate, a number preceded by a unit a prefix candidate
   (a unit between two numbers is claimed by both) *)
Layouts == { l \in SeqsOver({"N", "U"}, N) : Len(l) >= 2 }
CandsOf(l) == { [start |-> p - 1, length |-> 2, prefix |-> FALSE] : p \in { q \in 1..(Len(l) - 1) : l[q] = "N" /\ l[q + 1] = "U" } }
              \cup { [start |-> p - 2, length |-> 2, prefix |-> TRUE] : p \in { q \in 2..Len(l) : l[q] = "N" /\ l[q - 1] = "U" } }
SortByStart(S) == LET n == Cardinality(S) IN [k \in 1..n |-> CHOOSE c \in S : Cardinality({d \in S : d.start < c.start}) = k - 1]
Init == /\ ers \in { SortByStart(CandsOf(l)) : l \in { x \in Layouts : Cardinality(CandsOf(x)) >= 2 } }
        /\ phase = "conflict" /\ i = 1 /\ curEnd = -1 /\ prefixRes = <<>> /\ suffixRes = <<>> /\ out = <<>>

HaveConflict == \E k \in 2..Len(ers) : EndX(ers[k - 1]) > ers[k].start
ConflictTest == /\ phase = "conflict"
                /\ IF HaveConflict THEN phase' = "prefix" /\ UNCHANGED out ELSE phase' = "done" /\ out' = ers
                /\ UNCHANGED <<ers, i, curEnd, prefixRes, suffixRes>>
PrefixStep ==
  /\ phase = "prefix" /\ i <= Len(ers)
  /\ IF curEnd < ers[i].start THEN curEnd' = EndX(ers[i]) /\ prefixRes' = Append(prefixRes, ers[i])
     ELSE IF ers[i].prefix THEN curEnd' = EndX(ers[i]) /\ prefixRes' = Append(SubSeq(prefixRes, 1, Len(prefixRes) - 1), ers[i])
     ELSE UNCHANGED <<curEnd, prefixRes>>
  /\ i' = i + 1 /\ UNCHANGED <<ers, phase, suffixRes, out>>
PrefixDone == phase = "prefix" /\ i = Len(ers) + 1 /\ phase' = "suffix" /\ i' = Len(ers) /\ curEnd' = N /\ UNCHANGED <<ers, prefixRes, suffixRes, out>>
SuffixStep ==
  /\ phase = "suffix" /\ i >= 1
  /\ IF curEnd >= EndX(ers[i]) THEN curEnd' = ers[i].start /\ suffixRes' = Append(suffixRes, ers[i])
     ELSE IF ~ers[i].prefix THEN curEnd' = ers[i].start /\ suffixRes' = Append(SubSeq(suffixRes, 1, Len(suffixRes) - 1), ers[i])
     ELSE UNCHANGED <<curEnd, suffixRes>>
  /\ i' = i - 1 /\ UNCHANGED <<ers, phase, prefixRes, out>>
SuffixDone == /\ phase = "suffix" /\ i = 0
              /\ out' = IF Len(suffixRes) >= Len(prefixRes) THEN SortSeq(suffixRes, LAMBDA a, b : a.start < b.start) ELSE prefixRes
              /\ phase' = "done" /\ UNCHANGED <<ers, i, curEnd, prefixRes, suffixRes>>
Next == ConflictTest \/ PrefixStep \/ PrefixDone \/ SuffixStep \/ SuffixDone
Spec == Init /\ [][Next]_vars

Overlap(a, b) == a.start < b.start + b.length /\ b.start < a.start + a.length
Disjoint == phase = "done" => \A a, b \in 1..Len(out) : a # b => ~Overlap(out[a], out[b])
=============================================================================
