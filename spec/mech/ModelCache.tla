----------------------------- MODULE ModelCache -----------------------------
(* The process-wide model cache (ModelFactory.__cache, a class attribute shared by every
   recogniser and every thread) and the request path
     Recognizer.__init__ (option check, initialize_models) -> Recognizer.get_model ->
     Culture.map_to_nearest_language -> ModelFactory.get_model -> try_get_model.
   One action per shared-state access or constructor run, so that TLC explores every
   interleaving of lookups, constructions and inserts of concurrent callers. *)
EXTENDS Routing

CONSTANTS Threads, Reqs, MaxCalls,
          Family,         \* model type -> recogniser family (models registered by one recogniser)
          CodeMapFixed    \* TRUE: language-subtag match (after the fix commit); FALSE: string prefix

NoModel == 0
Key(type, culture, opt) == <<type, culture, opt>>

(* Culture.map_to_nearest_language as written *)
MapCulture(code) ==
  IF code = NoCode \/ code = "" THEN NoCode
  ELSE LET lc == ToLower(code) IN
       IF lc \in Supported THEN lc
       ELSE LET cands == IF CodeMapFixed THEN { s \in Supported : Lang(s) = Lang(lc) }
                         ELSE { s \in Supported : StartsWith(s, Lang(lc)) } IN
            IF cands = {} THEN lc
            ELSE IF Cardinality(cands) > 1
                 THEN (IF \E s \in cands : IndexOf(s, "*") > 0 THEN CHOOSE s \in cands : IndexOf(s, "*") > 0 ELSE lc)
            ELSE CHOOSE s \in cands : TRUE

VARIABLES cache,    \* function: keys present -> model id
          built,    \* sequence: model id -> key it was constructed for
          pc, req, cul, held, result, calls,
          todo,     \* initialize_models: registered pairs still to visit (target culture None)
          sub       \* the pair being initialised
vars == <<cache, built, pc, req, cul, held, result, calls, todo, sub>>

CacheGet(k) == IF k \in DOMAIN cache THEN cache[k] ELSE NoModel
CachePut(k, v) == [x \in (DOMAIN cache) \cup {k} |-> IF x = k THEN v ELSE cache[x]]
NextId == Len(built) + 1
NoPair == <<"", "">>

Init == /\ cache = <<>>
        /\ built = <<>>
        /\ pc = [t \in Threads |-> "idle"]
        /\ req = [t \in Threads |-> CHOOSE r \in Reqs : TRUE]
        /\ cul = [t \in Threads |-> NoCode]
        /\ held = [t \in Threads |-> NoModel]
        /\ result = [t \in Threads |-> NoModel]
        /\ calls = [t \in Threads |-> 0]
        /\ todo = [t \in Threads |-> {}]
        /\ sub = [t \in Threads |-> NoPair]

FamilyPairs(ty) == { p \in Registered : Family[p[1]] = Family[ty] }

(* recogniser construction validates the options; with target culture None it initialises every
   registered model of the family; then get_model maps the culture *)
Begin(t, r) ==
  /\ pc[t] = "idle" /\ calls[t] < MaxCalls
  /\ req' = [req EXCEPT ![t] = r]
  /\ calls' = [calls EXCEPT ![t] = @ + 1]
  /\ result' = [result EXCEPT ![t] = NoModel]
  /\ held' = [held EXCEPT ![t] = NoModel]
  /\ sub' = [sub EXCEPT ![t] = NoPair]
  /\ IF r.opt \notin ValidOptions[r.type]
     THEN pc' = [pc EXCEPT ![t] = "raised"] /\ UNCHANGED <<cul, todo>>
     ELSE /\ cul' = [cul EXCEPT ![t] = MapCulture(r.code)]
          /\ IF r.code = NoCode
             THEN pc' = [pc EXCEPT ![t] = "init"] /\ todo' = [todo EXCEPT ![t] = FamilyPairs(r.type)]
             ELSE pc' = [pc EXCEPT ![t] = "lookup"] /\ todo' = [todo EXCEPT ![t] = {}]
  /\ UNCHANGED <<cache, built>>

CurKey(t) == Key(req[t].type, cul[t], req[t].opt)
SubKey(t) == Key(sub[t][1], sub[t][2], req[t].opt)

(* initialize_models: try_get_model for one registered pair *)
InitLookup(t, p) ==
  /\ pc[t] = "init" /\ p \in todo[t]
  /\ IF CacheGet(Key(p[1], p[2], req[t].opt)) # NoModel
     THEN /\ todo' = [todo EXCEPT ![t] = @ \ {p}]
          /\ pc' = [pc EXCEPT ![t] = IF todo[t] = {p} THEN "lookup" ELSE "init"]
          /\ UNCHANGED sub
     ELSE /\ sub' = [sub EXCEPT ![t] = p] /\ pc' = [pc EXCEPT ![t] = "init_build"] /\ UNCHANGED todo
  /\ UNCHANGED <<cache, built, req, cul, held, result, calls>>
InitBuild(t) ==
  /\ pc[t] = "init_build"
  /\ held' = [held EXCEPT ![t] = NextId]
  /\ built' = Append(built, SubKey(t))
  /\ pc' = [pc EXCEPT ![t] = "init_insert"]
  /\ UNCHANGED <<cache, req, cul, result, calls, todo, sub>>
InitInsert(t) ==
  /\ pc[t] = "init_insert"
  /\ cache' = CachePut(SubKey(t), held[t])
  /\ todo' = [todo EXCEPT ![t] = @ \ {sub[t]}]
  /\ pc' = [pc EXCEPT ![t] = IF todo[t] = {sub[t]} THEN "lookup" ELSE "init"]
  /\ sub' = [sub EXCEPT ![t] = NoPair]
  /\ UNCHANGED <<built, req, cul, held, result, calls>>

(* a recogniser constructed without eager initialisation (ChoiceRecognizer's default) goes
   straight to the request's own lookup *)
SkipInit(t) ==
  /\ pc[t] = "init"
  /\ pc' = [pc EXCEPT ![t] = "lookup"]
  /\ todo' = [todo EXCEPT ![t] = {}]
  /\ UNCHANGED <<cache, built, req, cul, held, result, calls, sub>>

(* get_model_from_cache: hit returns; miss goes to the constructor if one is registered *)
Lookup(t) ==
  /\ pc[t] \in {"lookup", "fb_lookup"}
  /\ IF CacheGet(CurKey(t)) # NoModel
     THEN result' = [result EXCEPT ![t] = CacheGet(CurKey(t))] /\ pc' = [pc EXCEPT ![t] = "return"]
     ELSE /\ UNCHANGED result
          /\ pc' = [pc EXCEPT ![t] =
                IF <<req[t].type, cul[t]>> \in Registered THEN (IF pc[t] = "lookup" THEN "build" ELSE "fb_build")
                ELSE IF pc[t] = "lookup" /\ req[t].fb THEN "fallback" ELSE "raised"]
  /\ UNCHANGED <<cache, built, req, cul, held, calls, todo, sub>>

(* model_ctor(options): a fresh model, remembered with the key it was built for *)
Build(t) ==
  /\ pc[t] \in {"build", "fb_build"}
  /\ held' = [held EXCEPT ![t] = NextId]
  /\ built' = Append(built, CurKey(t))
  /\ pc' = [pc EXCEPT ![t] = "insert"]
  /\ UNCHANGED <<cache, req, cul, result, calls, todo, sub>>

(* register_model_in_cache: last writer wins *)
Insert(t) ==
  /\ pc[t] = "insert"
  /\ cache' = CachePut(CurKey(t), held[t])
  /\ result' = [result EXCEPT ![t] = held[t]]
  /\ pc' = [pc EXCEPT ![t] = "return"]
  /\ UNCHANGED <<built, req, cul, held, calls, todo, sub>>

(* second try_get_model with the default culture *)
Fallback(t) ==
  /\ pc[t] = "fallback"
  /\ cul' = [cul EXCEPT ![t] = English]
  /\ pc' = [pc EXCEPT ![t] = "fb_lookup"]
  /\ UNCHANGED <<cache, built, req, held, result, calls, todo, sub>>

(* Fallback followed at once by its Lookup: the grain at which the code performs it (no other
   access of this thread in between); used when replaying logged cache reads *)
FallbackLookup(t) ==
  /\ pc[t] = "fallback"
  /\ LET k == Key(req[t].type, English, req[t].opt) IN
       /\ cul' = [cul EXCEPT ![t] = English]
       /\ IF CacheGet(k) # NoModel
          THEN result' = [result EXCEPT ![t] = CacheGet(k)] /\ pc' = [pc EXCEPT ![t] = "return"]
          ELSE /\ UNCHANGED result
               /\ pc' = [pc EXCEPT ![t] = IF <<req[t].type, English>> \in Registered THEN "fb_build" ELSE "raised"]
  /\ UNCHANGED <<cache, built, req, held, calls, todo, sub>>

Return(t) == /\ pc[t] \in {"return", "raised"}
             /\ pc' = [pc EXCEPT ![t] = "idle"]
             /\ UNCHANGED <<cache, built, req, cul, held, result, calls, todo, sub>>

Next == \E t \in Threads : \/ \E r \in Reqs : Begin(t, r)
                           \/ \E p \in Registered : InitLookup(t, p)
                           \/ InitBuild(t) \/ InitInsert(t) \/ SkipInit(t)
                           \/ Lookup(t) \/ Build(t) \/ Insert(t) \/ Fallback(t) \/ Return(t)
Spec == Init /\ [][Next]_vars

(* ---- invariants *)
CacheKeyCorrect == \A k \in DOMAIN cache : built[cache[k]] = k
Obs(t) == IF pc[t] = "raised" THEN [kind |-> "error", exception |-> "ValueError"]
          ELSE LET k == built[result[t]] IN [kind |-> "model", type |-> k[1], culture |-> k[2], opt |-> k[3]]
(* every completed request satisfies the routing contract, whatever the interleaving and history *)
ReturnedForKey == \A t \in Threads : pc[t] \in {"return", "raised"} => Verdict(req[t], Obs(t)) = "ok"
(* a model handed out was built for exactly the key the thread resolved *)
HeldForKey == \A t \in Threads : pc[t] = "return" => built[result[t]] = CurKey(t)
=============================================================================
