------------------------------- MODULE IntValue -------------------------------
(* Transcription of BaseNumberParser.__get_int_value (English configuration): the right-to-left
   scan that marks the "end" round words, the recursive split at those words, and the stack
   machine that combines cardinals, ordinals and the separator "and".  Tokens are what
   __get_matches yields: lower-case words, hyphens dropped.
   TLC checks IntValue(Lex(Spell(n))) = n for the written-out forms of NumWords_en.tla below 10^9
   (TLC integers are 32 bit), for all four variants, cardinal and ordinal. *)
EXTENDS NumWords_en

(* ---- lexing the written form into tokens: <<kind, value>>, kind in card / ord / round / roundord / and *)
IndexIn(seq, w) == IF \E i \in 1..Len(seq) : seq[i] = w THEN CHOOSE i \in 1..Len(seq) : seq[i] = w ELSE 0
RECURSIVE Pow1000(_)
Pow1000(k) == IF k = 0 THEN 1 ELSE 1000 * Pow1000(k - 1)
Tok(w) ==
  IF w = "and" THEN <<"and", 0>>
  ELSE IF IndexIn(Ones, w) > 0 THEN <<"card", IndexIn(Ones, w)>>
  ELSE IF IndexIn(Tens, w) > 1 THEN <<"card", 10 * IndexIn(Tens, w)>>
  ELSE IF w = "hundred" THEN <<"round", 100>>
  ELSE IF IndexIn(Scales, w) > 1 THEN <<"round", Pow1000(IndexIn(Scales, w) - 1)>>
  ELSE IF IndexIn(OnesOrd, w) > 0 THEN <<"ord", IndexIn(OnesOrd, w)>>
  ELSE IF IndexIn(TensOrd, w) > 1 THEN <<"ord", 10 * IndexIn(TensOrd, w)>>
  ELSE IF w = "hundredth" THEN <<"roundord", 100>>
  ELSE IF IndexIn(ScalesOrd, w) > 1 THEN <<"roundord", Pow1000(IndexIn(ScalesOrd, w) - 1)>>
  ELSE <<"other", 0>>
RECURSIVE LexFrom(_, _, _)
LexFrom(s, i, start) ==
  IF i > Len(s) THEN (IF start <= Len(s) THEN <<Tok(SubSeq(s, start, Len(s)))>> ELSE <<>>)
  ELSE IF Ch(s, i) \in {" ", "-"} THEN (IF start < i THEN <<Tok(SubSeq(s, start, i - 1))>> ELSE <<>>) \o LexFrom(s, i + 1, i + 1)
  ELSE LexFrom(s, i + 1, start)
Lex(s) == LexFrom(s, 1, 1)

(* ---- the code's view of a token *)
IsRound(t) == t[1] \in {"round", "roundord"}          \* in round_number_map
IsCardinal(t) == t[1] \in {"card", "round"}            \* in cardinal_number_map (round words are cardinals too)
IsOrdinal(t) == t[1] \in {"ord", "roundord"}           \* in ordinal_number_map

(* ---- the end-flag scan: for i from the last index down to the second *)
RECURSIVE EndScan(_, _, _, _)
EndScan(ts, i, flag, ends) ==
  IF i < 2 THEN <<flag, ends>>
  ELSE IF IsRound(ts[i]) /\ ~(flag > ts[i][2]) THEN EndScan(ts, i - 1, ts[i][2], ends \cup {i})
  ELSE EndScan(ts, i - 1, flag, ends)

RECURSIVE SumSeq(_)
SumSeq(q) == IF Len(q) = 0 THEN 0 ELSE q[1] + SumSeq(Tail(q))
Pop(q) == SubSeq(q, 1, Len(q) - 1)
Top(q) == q[Len(q)]

(* ---- the stack machine of the end_flag == 1 branch; old: the previous token *)
RECURSIVE Machine(_, _, _, _)
Machine(ts, i, stack, oldIsAnd) ==
  IF i > Len(ts) THEN SumSeq(stack)
  ELSE LET t == ts[i] IN
       IF IsOrdinal(t)
       THEN LET frac == t[2] IN
            (IF Len(stack) > 0
             THEN LET intp == Top(stack) rest == Pop(stack) IN
                  IF intp >= frac THEN Machine(ts, i + 1, Append(rest, intp + frac), FALSE)
                  ELSE Machine(ts, i + 1, <<(intp + SumSeq(rest)) * frac>>, FALSE)
             ELSE Machine(ts, i + 1, <<frac>>, FALSE))
       ELSE IF IsCardinal(t)
       THEN (IF oldIsAnd \/ Len(stack) < 2 THEN Machine(ts, i + 1, Append(stack, t[2]), FALSE)
             ELSE LET a == Top(stack) b == Top(Pop(stack)) IN Machine(ts, i + 1, Append(Pop(Pop(stack)), a + t[2] + b), FALSE))
       ELSE Machine(ts, i + 1, stack, t[1] = "and")       \* resolve_composite_number("and") = 0: nothing pushed

RECURSIVE IntValue(_)
RECURSIVE SplitSum(_, _, _, _, _)
(* the else-branch: walk i = 1..Len, at each end word add mul * value(of the tokens since the last end word) *)
SplitSum(ts, ends, i, lastIdx, acc) ==
  IF i > Len(ts)
  THEN (IF lastIdx # Len(ts) + 1 THEN acc + IntValue(SubSeq(ts, lastIdx, Len(ts))) ELSE acc)
  ELSE IF i \in ends
       THEN LET mul == ts[i][2]
                part == IF i # 1 THEN IntValue(SubSeq(ts, lastIdx, i - 1)) ELSE 1
            IN SplitSum(ts, ends, i + 1, i + 1, acc + mul * part)
       ELSE SplitSum(ts, ends, i + 1, lastIdx, acc)
IntValue(ts) ==
  IF Len(ts) = 0 THEN 0
  ELSE LET sc == EndScan(ts, Len(ts), 1, {}) IN
       IF sc[1] = 1 THEN Machine(ts, 1, <<>>, FALSE) ELSE SplitSum(ts, sc[2], 1, 1, 0)

(* ---- model: written form -> tokens -> value, one action per phase *)
RECURSIVE GroupsValue(_)
GroupsValue(gs) == IF Len(gs) = 0 THEN 0 ELSE GroupsValue(SubSeq(gs, 1, Len(gs) - 1)) * 1000 + gs[Len(gs)]
MechNumbers == { gs \in Numbers : Len(gs) <= 3 }
VARIABLES gs, v, ord, text, toks, val, pc
mvars == <<gs, v, ord, text, toks, val, pc>>
MInit == /\ gs \in MechNumbers /\ v \in Variants /\ ord \in BOOLEAN /\ ~IsZero(gs)
         /\ text = "" /\ toks = <<>> /\ val = -1 /\ pc = "spell"
MSpell == pc = "spell" /\ text' = (IF ord THEN SpellOrdinal(gs, v) ELSE Spell(gs, v)) /\ pc' = "lex" /\ UNCHANGED <<gs, v, ord, toks, val>>
MLex == pc = "lex" /\ toks' = Lex(text) /\ pc' = "value" /\ UNCHANGED <<gs, v, ord, text, val>>
MValue == pc = "value" /\ val' = IntValue(toks) /\ pc' = "done" /\ UNCHANGED <<gs, v, ord, text, toks>>
MNext == MSpell \/ MLex \/ MValue
MSpec == MInit /\ [][MNext]_mvars
LexTotal == pc \in {"value", "done"} => \A k \in 1..Len(toks) : toks[k][1] # "other"
(* "zero" is not a cardinal of the stack machine (the parser handles it elsewhere) *)
ValueCorrect == (pc = "done" /\ ~IsZero(gs)) => val = GroupsValue(gs)
=============================================================================
