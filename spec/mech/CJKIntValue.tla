---------------------------- MODULE CJKIntValue ----------------------------
(* Transcription of BaseCJKNumberParser.get_int_value (Chinese and Japanese integers written with numerals and the round
   characters 十 百 千 万 亿), one action per character: int_value / part_value / before_value, the "round before" flags and
   round_default, which carries the colloquial reading "一百五" = 150.  The dozen / pair suffixes, the minus sign and the
   unit_map rewriting (万万 -> 亿) are outside the model.
   Characters are ASCII stand-ins (TLC cannot keep CJK text in a state):  z a b c d e f g h i = 零 一 二 三 四 五 六 七 八 九,
   l = 两,  S B Q W Y = 十 百 千 万 亿,  0..9 = Arabic digits.
   TLC checks the contract of NumWords_intl.tla for zh-cn: the standard written form of n evaluates to n (every n below
   10^4, boundary and sparse numbers up to 2 x 10^9), and the colloquial short forms evaluate to what they mean. *)
EXTENDS Integers, Sequences, FiniteSets, TLC, RTStrings

CONSTANTS Ns,        \* the integers whose written forms are evaluated
          Japanese   \* TRUE: Culture.Japanese (no colloquial reading of a trailing numeral)

Numerals == "zabcdefghi"
D(d) == Ch(Numerals, d + 1)
RoundVal(c) == CASE c = "S" -> 10 [] c = "B" -> 100 [] c = "Q" -> 1000 [] c = "W" -> 10000 [] c = "Y" -> 100000000 [] OTHER -> 0
IsRound(c) == RoundVal(c) # 0
IsArabic(c) == IsDigit(c)
NumVal(c) == IF IsArabic(c) THEN DigitVal(c) ELSE IF c = "l" THEN 2 ELSE IndexOf(Numerals, c) - 1
IsNum(c) == IsArabic(c) \/ c = "l" \/ IndexOf(Numerals, c) > 0
RoundDirect == {"Y"}          \* RoundDirectList: 亿 兆 億
TenChars == {"S"}             \* TenChars: 十 拾
ZeroChar == "z"

(* ---- the standard written form (the oracle's side: NumWords_intl.tla writes the same grammar with real characters) *)
Spell4(n, leading) ==
  LET q == n \div 1000  b == (n % 1000) \div 100  s == (n % 100) \div 10  u == n % 10 IN
  (IF q > 0 THEN D(q) \o "Q" ELSE "")
  \o (IF b > 0 THEN D(b) \o "B" ELSE IF q > 0 /\ (s > 0 \/ u > 0) THEN "z" ELSE "")
  \o (IF s > 0 THEN (IF s = 1 /\ q = 0 /\ b = 0 /\ leading THEN "S" ELSE D(s) \o "S")
      ELSE IF b > 0 /\ u > 0 THEN "z" ELSE "")
  \o (IF u > 0 THEN D(u) ELSE "")
Spell8(n, leading) ==
  LET hi == n \div 10000  lo == n % 10000 IN
  IF hi = 0 THEN Spell4(lo, leading)
  ELSE Spell4(hi, leading) \o "W" \o (IF lo = 0 THEN "" ELSE IF lo < 1000 THEN "z" \o Spell4(lo, FALSE) ELSE Spell4(lo, FALSE))
Spell(n) ==
  IF n = 0 THEN "z"
  ELSE LET hi == n \div 100000000  lo == n % 100000000 IN
       IF hi = 0 THEN Spell8(lo, TRUE)
       ELSE Spell8(hi, TRUE) \o "Y" \o (IF lo = 0 THEN "" ELSE IF lo < 10000000 THEN "z" \o Spell8(lo, FALSE) ELSE Spell8(lo, FALSE))
(* colloquial: the last round character is dropped, 一百五 = 150, 三千二 = 3200, 两万三 = 23000 *)
Colloquial == { [text |-> D(a) \o r \o D(b), value |-> a * RoundVal(r) + b * (RoundVal(r) \div 10)] : a \in 1..9, b \in 1..9, r \in {"B", "Q", "W"} }
              \cup { [text |-> "l" \o r \o D(b), value |-> 2 * RoundVal(r) + b * (RoundVal(r) \div 10)] : b \in 1..9, r \in {"Q", "W"} }
Standard == { [text |-> Spell(n), value |-> n] : n \in Ns }
Inputs == Standard \cup (IF Japanese THEN {} ELSE Colloquial)

VARIABLES inp, i, intV, partV, beforeV, isRoundBefore, roundBefore, roundDefault, hasPrev, pc
vars == <<inp, i, intV, partV, beforeV, isRoundBefore, roundBefore, roundDefault, hasPrev, pc>>
At(s, k) == Ch(s, k + 1)

Init == /\ inp \in Inputs /\ i = 0 /\ intV = 0 /\ partV = 0 /\ beforeV = 1 /\ isRoundBefore = FALSE /\ roundBefore = -1
        /\ roundDefault = 1 /\ hasPrev = FALSE /\ pc = "loop"

RoundStep(c, last) ==
  LET rr == RoundVal(c) IN
  /\ IF roundBefore # -1 /\ rr > roundBefore
     THEN /\ IF isRoundBefore THEN intV' = intV + partV * rr /\ isRoundBefore' = FALSE
                              ELSE intV' = intV + (partV + beforeV * roundDefault) * rr /\ UNCHANGED isRoundBefore
          /\ roundBefore' = -1 /\ partV' = 0
     ELSE /\ isRoundBefore' = TRUE /\ roundBefore' = rr
          /\ LET p2 == partV + beforeV * rr IN
             IF last \/ c \in RoundDirect THEN intV' = intV + p2 /\ partV' = 0 ELSE partV' = p2 /\ UNCHANGED intV
  /\ roundDefault' = rr \div 10 /\ UNCHANGED beforeV
NumStep(c, last) ==
  LET d == NumVal(c) IN
  IF ~last THEN
       LET nx == At(inp.text, i + 1)  isNotRoundNext == nx \in TenChars \/ ~IsRound(nx) IN
       IF c = ZeroChar /\ isNotRoundNext
       THEN beforeV' = 1 /\ roundDefault' = 1 /\ UNCHANGED <<intV, partV, isRoundBefore, roundBefore>>
       ELSE /\ beforeV' = (IF hasPrev THEN beforeV * 10 + d ELSE d) /\ isRoundBefore' = FALSE
            /\ UNCHANGED <<intV, partV, roundBefore, roundDefault>>
  ELSE LET rd == IF Japanese \/ IsArabic(c) THEN 1 ELSE roundDefault
           bv == IF hasPrev THEN beforeV * 10 + d ELSE d
       IN /\ beforeV' = bv /\ roundDefault' = rd /\ intV' = intV + partV + bv * rd /\ partV' = 0
          /\ UNCHANGED <<isRoundBefore, roundBefore>>
Step == /\ pc = "loop" /\ i < Len(inp.text)
        /\ LET c == At(inp.text, i)  last == i = Len(inp.text) - 1 IN
           /\ IF IsRound(c) THEN RoundStep(c, last)
              ELSE IF IsNum(c) THEN NumStep(c, last)
              ELSE UNCHANGED <<intV, partV, beforeV, isRoundBefore, roundBefore, roundDefault>>
           /\ hasPrev' = IsArabic(c)
        /\ i' = i + 1 /\ UNCHANGED <<inp, pc>>
Done == pc = "loop" /\ i = Len(inp.text) /\ pc' = "done" /\ UNCHANGED <<inp, i, intV, partV, beforeV, isRoundBefore, roundBefore, roundDefault, hasPrev>>
Next == Step \/ Done
Spec == Init /\ [][Next]_vars

ValueIsMeant == pc = "done" => intV = inp.value
NothingPending == pc = "done" => partV = 0
=============================================================================
