-------------------------------- MODULE Trie --------------------------------
(* TrieTree.insert / TrieTree.find as a state machine.  The trie is the set of node paths
   (sequences of token symbols) with the list of ids stored at each node; insert walks one token
   per step, find runs the nested loops `for i ... for j ...` one iteration per step.
   TLC checks that the reported matches are exactly the brute-force occurrences of Matcher.tla. *)
EXTENDS Matcher

CONSTANTS Syms, Ids, MaxPhrases, MaxPhraseLen, MaxQuery

RECURSIVE SeqsOver(_, _)
SeqsOver(S, n) == IF n = 0 THEN {<<>>}
                  ELSE LET R == SeqsOver(S, n - 1) IN R \cup { Append(s, c) : s \in { t \in R : Len(t) = n - 1 }, c \in S }
Phrases == SeqsOver(Syms, MaxPhraseLen) \ {<<>>}
Entries == { [toks |-> p, id |-> d] : p \in Phrases, d \in Ids }
Dicts == SeqsOver(Entries, MaxPhrases) \ {<<>>}
Queries == SeqsOver(Syms, MaxQuery) \ {<<>>}

VARIABLES dict, query,          \* inputs
          nodes, vals,          \* the trie: set of paths, ids at each path
          pc, k, path,          \* insertion: phrase index, current node
          i, j, node, alive,    \* find loops
          results               \* sequence of <<i (1-based token index), length, ids>>
vars == <<dict, query, nodes, vals, pc, k, path, i, j, node, alive, results>>

Init == /\ dict \in Dicts /\ query \in Queries
        /\ nodes = {<<>>} /\ vals = [p \in {<<>>} |-> <<>>]
        /\ pc = "insert" /\ k = 1 /\ path = <<>>
        /\ i = 1 /\ j = 1 /\ node = <<>> /\ alive = TRUE /\ results = <<>>

(* insert: `for item in value: child = node[item]; if child is None: node[item] = Node()` *)
InsertStep ==
  /\ pc = "insert" /\ k <= Len(dict) /\ Len(path) < Len(dict[k].toks)
  /\ LET nxt == Append(path, dict[k].toks[Len(path) + 1]) IN
       /\ nodes' = nodes \cup {nxt}
       /\ vals' = IF nxt \in nodes THEN vals ELSE [p \in nodes \cup {nxt} |-> IF p = nxt THEN <<>> ELSE vals[p]]
       /\ path' = nxt
  /\ UNCHANGED <<dict, query, pc, k, i, j, node, alive, results>>
(* `node.add_value(id)` *)
InsertEnd ==
  /\ pc = "insert" /\ k <= Len(dict) /\ Len(path) = Len(dict[k].toks)
  /\ vals' = [vals EXCEPT ![path] = Append(@, dict[k].id)]
  /\ k' = k + 1 /\ path' = <<>>
  /\ pc' = IF k = Len(dict) THEN "find" ELSE "insert"
  /\ UNCHANGED <<dict, query, nodes, i, j, node, alive, results>>

IsEnd(n) == Len(vals[n]) > 0
(* one iteration of the inner loop `for j in range(i, len+1)`: report, then descend *)
FindStep ==
  /\ pc = "find" /\ i <= Len(query) /\ alive
  /\ results' = IF IsEnd(node) THEN Append(results, <<i, j - i, { vals[node][x] : x \in 1..Len(vals[node]) }>>) ELSE results
  /\ IF j = Len(query) + 1 \/ Append(node, query[j]) \notin nodes
     THEN alive' = FALSE /\ UNCHANGED <<node, j>>
     ELSE node' = Append(node, query[j]) /\ j' = j + 1 /\ UNCHANGED alive
  /\ UNCHANGED <<dict, query, nodes, vals, pc, k, path, i>>
(* next iteration of the outer loop *)
FindNext ==
  /\ pc = "find" /\ ~alive
  /\ IF i = Len(query) THEN pc' = "done" /\ UNCHANGED <<i, j, node, alive>>
     ELSE i' = i + 1 /\ j' = i + 1 /\ node' = <<>> /\ alive' = TRUE /\ UNCHANGED pc
  /\ UNCHANGED <<dict, query, nodes, vals, k, path, results>>

Next == InsertStep \/ InsertEnd \/ FindStep \/ FindNext
Spec == Init /\ [][Next]_vars

FindExact == pc = "done" =>
  /\ { <<results[x][1], results[x][2]>> : x \in 1..Len(results) } = Occurrences(dict, query)
  /\ Len(results) = Cardinality(Occurrences(dict, query))
  /\ \A x \in 1..Len(results) : results[x][3] = IdsAt(dict, query, results[x][1], results[x][2])
PrefixClosed == \A p \in nodes : p = <<>> \/ SubSeq(p, 1, Len(p) - 1) \in nodes
=============================================================================
