----------------------------- MODULE TimexMech -----------------------------
(* The parse -> infer -> format pipeline of datatypes_timex_expression as a state machine, one
   action per step, run twice (s -> fields -> types -> text -> fields -> types -> text), so that
   the contract of Timex.tla is model-checked on the transcription TimexOps.tla itself. *)
EXTENDS TimexOps

(* ------------------------------------------------------------------ pipeline state machine *)
AllCases == TLCEval(Cases)
VARIABLES c, pc, fields1, types1, fmt1, fields2, types2, fmt2
vars == <<c, pc, fields1, types1, fmt1, fields2, types2, fmt2>>

Init == /\ c \in AllCases
        /\ pc = "parse1"
        /\ fields1 = Empty /\ types1 = {} /\ fmt1 = "" /\ fields2 = Empty /\ types2 = {} /\ fmt2 = ""

Parse1 == pc = "parse1" /\ fields1' = ParseFields(c.text) /\ pc' = "infer1" /\ UNCHANGED <<c, types1, fmt1, fields2, types2, fmt2>>
Infer1 == pc = "infer1" /\ types1' = Infer(fields1) /\ pc' = "format1" /\ UNCHANGED <<c, fields1, fmt1, fields2, types2, fmt2>>
Format1 == pc = "format1" /\ fmt1' = Format(fields1) /\ pc' = "parse2" /\ UNCHANGED <<c, fields1, types1, fields2, types2, fmt2>>
Parse2 == pc = "parse2" /\ fields2' = ParseFields(fmt1) /\ pc' = "infer2" /\ UNCHANGED <<c, fields1, types1, fmt1, types2, fmt2>>
Infer2 == pc = "infer2" /\ types2' = Infer(fields2) /\ pc' = "format2" /\ UNCHANGED <<c, fields1, types1, fmt1, fields2, fmt2>>
Format2 == pc = "format2" /\ fmt2' = Format(fields2) /\ pc' = "done" /\ UNCHANGED <<c, fields1, types1, fmt1, fields2, types2>>
Next == Parse1 \/ Infer1 \/ Format1 \/ Parse2 \/ Infer2 \/ Format2
Spec == Init /\ [][Next]_vars

MechObs == [fields1 |-> fields1, fmt1 |-> fmt1, fields2 |-> fields2, fmt2 |-> fmt2]
MechContract == pc = "done" => Verdict(c, MechObs) = "ok"
MechDenotation == pc \in {"infer1", "done"} => SameRec(fields1, c.den)
MechTypesStable == pc = "done" => types1 = types2
=============================================================================
