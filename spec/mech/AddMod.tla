------------------------------- MODULE AddMod -------------------------------
(* Transcription of ChineseMergedExtractor.add_mod (date-time, zh-cn): every extracted entity is widened by a modifier
   word that stands directly after it (before / after / since-suffix words) or directly before it (until / since-prefix /
   equal), "directly" meaning: only blanks in between (RegExpUtility.match_begin with trim).
   The query is a string over stand-in words, one ASCII letter per character of the real word, so that all offsets
   coincide with the real text:  "b" = 前 (before), "aa" = 之后 (after), "uu" = 直到 (until), "s" = 从 (since prefix),
   "xx" = 以来 (since suffix), "=" (equal), " " blank, "o" any other character, "EEE" an extracted entity.
   Fixed = TRUE is the code after commit e8092e571; FALSE the code before it: the match object tested instead of its
   success flag, text sliced with the length as end index (Python slice semantics, negative starts included),
   context strings stripped, prefix context always from the start of the query.
   TLC checks what C01 / C12 need from this step: every entity's text is the slice of the query it points at, inside the
   query, and entities that were disjoint stay disjoint. *)
EXTENDS Integers, Sequences, FiniteSets, TLC, RTStrings

CONSTANTS MaxTokens, Fixed,
          BoundedAfter   \* TRUE: suffix modifiers are searched only up to the start of the next entity (after the second fix)

Words == <<"EEE", "b", "aa", "uu", "s", "xx", "=", " ", "o", "aaE">>     \* "aaE": an entity whose own text begins with the after word
RECURSIVE Concat(_, _)
Concat(ws, i) == IF i > Len(ws) THEN "" ELSE Words[ws[i]] \o Concat(ws, i + 1)
RECURSIVE StartOf(_, _)
StartOf(ws, i) == IF i = 1 THEN 0 ELSE StartOf(ws, i - 1) + Len(Words[ws[i - 1]])     \* 0-based offset of token i

(* ---- Python string helpers on 0-based offsets *)
Sub(s, a, b) == SubSeq(s, a + 1, b)                              \* s[a:b] for 0 <= a <= b <= len
PySlice(s, a, b) == LET n == Len(s)
                        a1 == IF a < 0 THEN Max(a + n, 0) ELSE Min(a, n)
                        b1 == IF b < 0 THEN Max(b + n, 0) ELSE Min(b, n)
                    IN IF a1 >= b1 THEN "" ELSE Sub(s, a1, b1)
RECURSIVE LStrip(_)
LStrip(s) == IF Len(s) > 0 /\ Ch(s, 1) = " " THEN LStrip(SubSeq(s, 2, Len(s))) ELSE s
RECURSIVE RStrip(_)
RStrip(s) == IF Len(s) > 0 /\ Ch(s, Len(s)) = " " THEN RStrip(SubSeq(s, 1, Len(s) - 1)) ELSE s
Strip(s) == LStrip(RStrip(s))
RECURSIVE FindFrom(_, _, _)
FindFrom(s, w, i) == IF i + Len(w) - 1 > Len(s) THEN -1 ELSE IF SubSeq(s, i, i + Len(w) - 1) = w THEN i - 1 ELSE FindFrom(s, w, i + 1)
Find(s, w) == FindFrom(s, w, 1)                                 \* 0-based index of the first occurrence, -1 if none
(* RegExpUtility.match_begin(regex, s, trim=True): <<found, success, index, length>> *)
MatchBegin(w, s) == LET i == Find(s, w) IN
                    IF i < 0 THEN <<FALSE, FALSE, 0, 0>> ELSE <<TRUE, Strip(Sub(s, 0, i)) = "", i, Len(w)>>
Taken(m) == IF Fixed THEN m[2] ELSE m[1]                        \* `if match and match.success` / `if match`

VARIABLES src, ents, k, lastEnd, pc
vars == <<src, ents, k, lastEnd, pc>>

TokSeqs == UNION { [1..n -> 1..Len(Words)] : n \in 1..MaxTokens }
IsEnt(w) == w = 1 \/ w = 10
EntsOf(ws) == [i \in 1..Cardinality({j \in 1..Len(ws) : IsEnt(ws[j])}) |->
                 LET j == CHOOSE j \in 1..Len(ws) : IsEnt(ws[j]) /\ Cardinality({q \in 1..j : IsEnt(ws[q])}) = i
                 IN [start |-> StartOf(ws, j), length |-> 3, text |-> Words[ws[j]]]]
Init == \E ws \in { w \in TokSeqs : \E j \in 1..Len(w) : IsEnt(w[j]) } :
          /\ src = Concat(ws, 1) /\ ents = EntsOf(ws) /\ k = 1 /\ lastEnd = 0 /\ pc = "loop"

(* one iteration of the for loop *)
Suffix(e, w, after, oldSliceEnd) ==
  LET m == MatchBegin(w, after) IN
  IF ~Taken(m) THEN e
  ELSE LET len2 == e.length + m[3] + m[4] IN
       [e EXCEPT !.length = len2,
                 !.text = IF Fixed THEN PySlice(src, e.start, e.start + len2) ELSE PySlice(src, e.start, len2 + oldSliceEnd)]
Prefix(e, w, before, plus) ==
  LET m == MatchBegin(w, before) IN
  IF ~Taken(m) THEN e
  ELSE LET modLen == IF plus /\ ~Fixed THEN Len(before) + m[3] ELSE Len(before) - m[3]
           len2 == e.length + modLen
           st2 == e.start - modLen
       IN [e EXCEPT !.length = len2, !.start = st2,
                    !.text = IF Fixed THEN PySlice(src, st2, st2 + len2) ELSE PySlice(src, st2, len2)]
Step ==
  /\ pc = "loop" /\ k <= Len(ents)
  /\ LET e0 == ents[k]
         before == IF Fixed THEN PySlice(src, lastEnd, e0.start) ELSE Strip(PySlice(src, lastEnd, e0.start))
         nextStart == IF BoundedAfter /\ k < Len(ents) THEN Max(ents[k + 1].start, e0.start + e0.length) ELSE Len(src)
         after == IF Fixed THEN PySlice(src, e0.start + e0.length, nextStart) ELSE Strip(PySlice(src, e0.start + e0.length, Len(src)))
         e1 == Suffix(e0, "b", after, 1)            \* before_regex, old slice [start : length + 1]
         e2 == Suffix(e1, "aa", after, 1)           \* after_regex
         e3 == Prefix(e2, "uu", before, FALSE)      \* until_regex:        mod_len = len(before) - index
         e4 == Prefix(e3, "s", before, TRUE)        \* since_prefix_regex: mod_len = len(before) + index before the fix
         e5 == Suffix(e4, "xx", after, 0)           \* since_suffix_regex, old slice [start : length]
         e6 == Prefix(e5, "=", before, TRUE)        \* equal_regex
     IN /\ ents' = [ents EXCEPT ![k] = e6]
        /\ lastEnd' = IF Fixed THEN Max(lastEnd, e6.start + e6.length) ELSE 0
  /\ k' = k + 1 /\ UNCHANGED <<src, pc>>
Done == pc = "loop" /\ k = Len(ents) + 1 /\ pc' = "done" /\ UNCHANGED <<src, ents, k, lastEnd>>
Next == Step \/ Done
Spec == Init /\ [][Next]_vars

(* ---- what C01 and C12 need *)
InBounds == pc = "done" => \A i \in 1..Len(ents) : ents[i].start >= 0 /\ ents[i].length >= 1 /\ ents[i].start + ents[i].length <= Len(src)
TextIsSlice == pc = "done" => \A i \in 1..Len(ents) : ents[i].start >= 0 /\ ents[i].start + ents[i].length <= Len(src)
                                 => ents[i].text = Sub(src, ents[i].start, ents[i].start + ents[i].length)
Disjoint == pc = "done" => \A i, j \in 1..Len(ents) : i < j => ents[i].start + ents[i].length <= ents[j].start
(* a modifier is attached only when nothing but blanks separates it from the entity *)
OnlyAdjacent == pc = "done" => \A i \in 1..Len(ents) :
                  LET t == ents[i].text IN \A p \in 1..Len(t) : Ch(t, p) # "o"
(* the entity words are not modifiers of their neighbours *)
=============================================================================
