----------------------------- MODULE GenerateDates -----------------------------
(* Transcription of DateUtils.generate_dates for a month/day without year (no_year = True): the
   candidate in the reference year, the +1 / -1 year moves, and the 29 February branch with its
   `year >> 2 << 2` search for the neighbouring leap years.  A date that does not exist is the
   sentinel 0 (DateUtils.min_value).  Comparisons are between a midnight candidate and a reference
   datetime, as in the code: the candidate is "before" the reference also on the same day when
   the reference has a time of day.
   TLC compares the result with the contract of OpenDate.tla (latest occurrence strictly before
   the reference's date, earliest on or after it) for every (month, day) and every reference day
   of the given years. *)
EXTENDS Integers, Sequences, FiniteSets, TLC, RTStrings, Calendar

CONSTANTS RefStride, RefYears, TimesOfDay      \* TimesOfDay: subset of {0, 1}: 0 = reference at 00:00:00, 1 = later that day

Create(y, m, d) == IF ValidDate(y, m, d) THEN Ordinal(y, m, d) ELSE 0
(* candidate (midnight) < reference / >= reference *)
Before(c, n, tod) == c < n \/ (c = n /\ tod > 0)
Shr2Shl2(y) == (y \div 4) * 4

Generate(n, tod, m, d) ==
  LET y == FromOrdinal(n)[1]
      c == Create(y, m, d)
  IN IF m = 2 /\ d = 29
     THEN (IF IsLeap(y)
           THEN (IF Before(c, n, tod) THEN <<Create(y + 4, m, d), c>> ELSE <<c, Create(y - 4, m, d)>>)
           ELSE LET p0 == Shr2Shl2(y)
                    p == IF IsLeap(p0) THEN p0 ELSE p0 - 4
                    f0 == p + 4
                    f == IF IsLeap(f0) THEN f0 ELSE f0 + 4
                IN <<Create(f, m, d), Create(p, m, d)>>)
     ELSE LET fut == IF Before(c, n, tod) /\ ValidDate(y, m, d) THEN Create(y + 1, m, d) ELSE c
              past == IF ~Before(c, n, tod) /\ ValidDate(y, m, d) THEN Create(y - 1, m, d) ELSE c
          IN <<fut, past>>            \* <<future, past>>

(* contract (OpenDate.tla) *)
Occ(m, d, y0, y1) == { Ordinal(y, m, d) : y \in { yy \in y0..y1 : yy >= 1 /\ d <= DaysInMonth(yy, m) } }
PastOcc(m, d, n) == LET y == FromOrdinal(n)[1] S == { x \in Occ(m, d, y - 8, y) : x < n } IN CHOOSE x \in S : \A z \in S : z <= x
FutureOcc(m, d, n) == LET y == FromOrdinal(n)[1] S == { x \in Occ(m, d, y, y + 8) : x >= n } IN CHOOSE x \in S : \A z \in S : x <= z

VARIABLES n, tod, m, d, res, pc
vars == <<n, tod, m, d, res, pc>>
MD == { t \in (1..12) \X (1..31) : t[2] <= DaysInMonth(2000, t[1]) }
RefDays == UNION { { Ordinal(y, 1, 1) + k : k \in { j \in 0..(IF IsLeap(y) THEN 365 ELSE 364) : j % RefStride = 0 \/ j \in {58, 59, 60} } } : y \in RefYears }
Init == /\ n \in RefDays /\ tod \in TimesOfDay /\ (\E t \in MD : m = t[1] /\ d = t[2]) /\ res = <<0, 0>> /\ pc = "call"
Call == pc = "call" /\ res' = Generate(n, tod, m, d) /\ pc' = "done" /\ UNCHANGED <<n, tod, m, d>>
Next == Call
Spec == Init /\ [][Next]_vars
MeetsContract == pc = "done" => (res[1] = FutureOcc(m, d, n) /\ res[2] = PastOcc(m, d, n))
=============================================================================
