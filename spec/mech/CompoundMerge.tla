---------------------------- MODULE CompoundMerge ----------------------------
(* Transcription of BaseCurrencyParser.__merge_compound_unit: the loop that walks over the amounts of one compound currency
   expression ("3 us dollars 50 cents 7 4 euros ...") and groups a main amount with the fraction amounts and bare numbers
   that follow it.  Items (what the merged-unit extractor hands over, in text order):
     U = an amount in US dollars (ISO USD, fraction unit CENT),  R = an amount in euros (ISO EUR, fraction unit CENT),
     C = an amount in cents (fraction code CENT, ratio 100, no ISO code of its own),
     E = an amount in pence (no ISO code; not a fraction unit of USD or EUR),   N = a bare number.
   Amounts are kept in hundredths.  One action per loop iteration; `steps` counts iterations.
   TLC checks: the loop ends within 2 x items + 1 iterations; the groups are in text order and disjoint; every currency item
   lies in exactly one group; a main amount directly followed by its fraction unit is one group worth main + fraction /
   ratio (C05); a bare number after the main amount counts as hundredths. *)
EXTENDS Integers, Sequences, FiniteSets, TLC

CONSTANTS MaxItems

Kinds == {"U", "R", "C", "E", "N"}
Amount(k) == CASE k = "U" -> 3 [] k = "R" -> 4 [] k = "C" -> 50 [] k = "E" -> 20 [] k = "N" -> 7
Iso(k) == CASE k = "U" -> "USD" [] k = "R" -> "EUR" [] OTHER -> ""
FractionsOf(iso) == IF iso \in {"USD", "EUR"} THEN {"CENT"} ELSE {}
FracCode(k) == IF k = "C" THEN "CENT" ELSE ""          \* currency_fraction_code_list
Ratio(k) == IF k = "C" THEN 100 ELSE 0                  \* currency_fraction_num_map
NoGroup == [first |-> 0, last |-> 0, val |-> 0, main |-> "", iso |-> ""]

VARIABLES items, idx, count, cur, frUnits, outs, steps, pc
vars == <<items, idx, count, cur, frUnits, outs, steps, pc>>

Init == /\ items \in UNION { [1..n -> Kinds] : n \in 1..MaxItems }
        /\ idx = 1 /\ count = 0 /\ cur = NoGroup /\ frUnits = {} /\ outs = <<>> /\ steps = 0 /\ pc = "loop"

Step ==
  /\ pc = "loop" /\ idx <= Len(items)
  /\ steps' = steps + 1
  /\ LET k == items[idx] IN
     IF count = 0 THEN
        IF k = "N" THEN idx' = idx + 1 /\ UNCHANGED <<count, cur, frUnits, outs>>            \* not a currency: skipped
        ELSE LET g == [first |-> idx, last |-> idx, val |-> Amount(k) * 100, main |-> k, iso |-> Iso(k)] IN
             IF Iso(k) = "" THEN /\ outs' = Append(outs, g) /\ cur' = NoGroup /\ idx' = idx + 1 /\ UNCHANGED <<count, frUnits>>
             ELSE /\ cur' = g /\ frUnits' = FractionsOf(Iso(k)) /\ count' = count + 1 /\ idx' = idx + 1 /\ UNCHANGED outs
     ELSE
        IF k = "N" THEN /\ cur' = [cur EXCEPT !.val = @ + Amount(k), !.last = idx] /\ count' = count + 1 /\ idx' = idx + 1
                        /\ UNCHANGED <<frUnits, outs>>
        ELSE IF FracCode(k) # "" /\ Ratio(k) # 0 /\ FracCode(k) \in frUnits
             THEN /\ cur' = [cur EXCEPT !.val = @ + (Amount(k) * 100) \div Ratio(k), !.last = idx]
                  /\ count' = count + 1 /\ idx' = idx + 1 /\ UNCHANGED <<frUnits, outs>>
             ELSE /\ outs' = (IF cur # NoGroup THEN Append(outs, cur) ELSE outs) /\ cur' = NoGroup
                  /\ count' = 0 /\ UNCHANGED <<idx, frUnits>>                                   \* `continue`: the same item again
  /\ UNCHANGED <<items, pc>>
Finish == /\ pc = "loop" /\ idx = Len(items) + 1
          /\ outs' = (IF cur # NoGroup THEN Append(outs, cur) ELSE outs) /\ cur' = NoGroup
          /\ pc' = "done" /\ UNCHANGED <<items, idx, count, frUnits, steps>>
Next == Step \/ Finish
Spec == Init /\ [][Next]_vars

Terminates == steps <= 2 * Len(items) + 1
Ordered == pc = "done" => \A a \in 1..Len(outs) : outs[a].first <= outs[a].last /\ (a < Len(outs) => outs[a].last < outs[a + 1].first)
EachCurrencyOnce == pc = "done" => \A i \in 1..Len(items) : items[i] # "N" => Cardinality({ a \in 1..Len(outs) : outs[a].first <= i /\ i <= outs[a].last }) = 1
MainPlusFraction == pc = "done" => \A i \in 1..(Len(items) - 1) :
   (items[i] \in {"U", "R"} /\ items[i + 1] = "C") =>
      \E a \in 1..Len(outs) : outs[a].first = i /\ outs[a].last >= i + 1 /\ outs[a].main = items[i] /\ outs[a].val >= Amount(items[i]) * 100 + Amount("C")
GroupValue == pc = "done" => \A a \in 1..Len(outs) :
   outs[a].val = Amount(items[outs[a].first]) * 100 + (IF outs[a].last = outs[a].first THEN 0 ELSE
                   LET S == (outs[a].first + 1)..outs[a].last IN
                   Cardinality({ i \in S : items[i] = "C" }) * 50 + Cardinality({ i \in S : items[i] = "N" }) * 7)
=============================================================================
