----------------------------- MODULE ModPushPop -----------------------------
(* Transcription of the modifier handling of BaseMergedParser.parse (date-time, every culture but Chinese): the "push"
   that finds before / after / since / around / equal words at the start of an extracted entity, strips them and
   remembers them in mod_str, the inner parse (modelled as echoing the stripped entity with a value), and the "pop"
   that restores start, length and text.  Words are the English ones; RegExpUtility.match_begin is "first occurrence,
   nothing but blanks before it".  The domain is what the extractor hands over: the entity text starts with its
   modifier (the suffix forms "3pm or later" and modifiers after the entity are outside the model).
   ResetAround = TRUE is the code: every restore block that consumes the around flag clears it; FALSE drops the reset in
   the since block (a slip a refactoring made in one of the seeded changes): the modifier is then restored twice.
   TLC checks what C01 / C12 need from this step: start, length and text come back exactly as they went in. *)
EXTENDS Integers, Sequences, FiniteSets, TLC, RTStrings

CONSTANTS ResetAround

Sub(s, a, b) == IF a >= b THEN "" ELSE SubSeq(s, a + 1, b)          \* s[a:b], 0-based, a, b within 0..Len(s)
From(s, a) == Sub(s, IF a > Len(s) THEN Len(s) ELSE a, Len(s))
RECURSIVE FindFrom(_, _, _)
FindFrom(s, w, i) == IF i + Len(w) - 1 > Len(s) THEN -1 ELSE IF SubSeq(s, i, i + Len(w) - 1) = w THEN i - 1 ELSE FindFrom(s, w, i + 1)
Find(s, w) == FindFrom(s, w, 1)
Blank(s) == \A i \in 1..Len(s) : Ch(s, i) = " "
(* match_begin(regex of word w, s, trim): [found, success, index, length] *)
MB(w, s) == LET i == Find(s, w) IN IF i < 0 THEN [found |-> FALSE, succ |-> FALSE, index |-> 0, length |-> 0]
                                   ELSE [found |-> TRUE, succ |-> Blank(Sub(s, 0, i)), index |-> i, length |-> Len(w)]
(* match_end: the FIRST occurrence, success when nothing but blanks follows it *)
ME(w, s) == LET i == Find(s, w) IN IF i < 0 THEN [found |-> FALSE, succ |-> FALSE, index |-> 0, length |-> 0]
                                   ELSE [found |-> TRUE, succ |-> Blank(From(s, i + Len(w))), index |-> i, length |-> Len(w)]

Mods1 == {"", "before", "after", "since", "="}
Gaps == {" ", "  "}
Entities == {"3pm", "2018"}
Inputs == { [text |-> (IF m1 = "" THEN "" ELSE m1 \o g1) \o (IF m2 = "" THEN "" ELSE m2 \o g2) \o e, start |-> st] :
              m1 \in Mods1, g1 \in Gaps, m2 \in {"", "around"}, g2 \in Gaps, e \in Entities, st \in {0, 5} }

VARIABLES inp, start, length, text, modStr, flags, res, pc
vars == <<inp, start, length, text, modStr, flags, res, pc>>
NoFlags == [before |-> FALSE, after |-> FALSE, since |-> FALSE, around |-> FALSE, equal |-> FALSE, mia |-> FALSE]

Init == /\ inp \in Inputs /\ start = inp.start /\ length = Len(inp.text) /\ text = inp.text /\ modStr = "" /\ flags = NoFlags
        /\ res = [start |-> 0, length |-> 0, text |-> ""] /\ pc = "push"

(* ---- push *)
Push ==
  /\ pc = "push"
  /\ LET b0 == MB("before", text)  a0 == MB("after", text)  s0 == MB("since", text)
         pre == IF b0.succ THEN b0.index + b0.length ELSE IF a0.succ THEN a0.index + a0.length ELSE IF s0.succ THEN s0.index + s0.length ELSE 0
         aroundText == From(text, pre)
         r0 == MB("around", aroundText)  e0 == MB("=", text)
         b == IF b0.found /\ ~b0.succ THEN ME("before", text) ELSE b0
         a == IF a0.found /\ ~a0.succ THEN ME("after", text) ELSE a0
         s == IF s0.found /\ ~s0.succ THEN ME("since", text) ELSE s0
         r == IF r0.found /\ ~r0.succ THEN ME("around", text) ELSE r0
         e == IF e0.found /\ ~e0.succ THEN ME("=", text) ELSE e0
         mia == (b0.found /\ ~b0.succ /\ b.succ) \/ (a0.found /\ ~a0.succ /\ a.succ) \/ (s0.found /\ ~s0.succ /\ s.succ)
                \/ (r0.found /\ ~r0.succ /\ r.succ) \/ (e0.found /\ ~e0.succ /\ e.succ)
         cut == pre + r.index + r.length
         (* around first *)
         st1 == IF r.succ THEN start + (IF mia THEN 0 ELSE cut) ELSE start
         ln1 == IF r.succ THEN length - (IF mia THEN r.length ELSE cut) ELSE length
         tx1 == IF r.succ THEN (IF mia THEN Sub(text, 0, ln1) ELSE From(text, cut)) ELSE text
         ms1 == IF r.succ THEN (IF mia THEN "around" ELSE Sub(aroundText, 0, r.index + r.length)) ELSE ""
         m == IF b.succ THEN b ELSE IF a.succ THEN a ELSE IF s.succ THEN s ELSE IF e.succ THEN e ELSE [found |-> FALSE, succ |-> FALSE, index |-> 0, length |-> 0]
         word == IF b.succ THEN "before" ELSE IF a.succ THEN "after" ELSE IF s.succ THEN "since" ELSE IF e.succ THEN "=" ELSE ""
         strip == m.succ /\ (~r.succ \/ (word = "=" ))        \* the equal branch strips even after around
         st2 == IF strip THEN st1 + (IF mia THEN 0 ELSE m.length) ELSE st1
         ln2 == IF strip THEN ln1 - m.length ELSE ln1
         tx2 == IF strip THEN (IF mia THEN Sub(tx1, 0, ln2) ELSE From(tx1, m.length)) ELSE tx1
         ms2 == IF ~m.succ THEN ms1 ELSE IF word = "=" THEN "=" ELSE word \o ms1
     IN /\ start' = st2 /\ length' = ln2 /\ text' = tx2 /\ modStr' = ms2
        /\ flags' = [before |-> b.succ, after |-> ~b.succ /\ a.succ, since |-> ~b.succ /\ ~a.succ /\ s.succ,
                     around |-> r.succ, equal |-> ~b.succ /\ ~a.succ /\ ~s.succ /\ e.succ, mia |-> mia]
  /\ pc' = "parse" /\ UNCHANGED <<inp, res>>

(* ---- the inner parser echoes the stripped entity *)
Parse == pc = "parse" /\ res' = [start |-> start, length |-> length, text |-> text] /\ pc' = "pop" /\ UNCHANGED <<inp, start, length, text, modStr, flags>>

(* ---- pop: the sequence of restore blocks *)
Restore(r, front) == [start |-> r.start - (IF front THEN Len(modStr) ELSE 0), length |-> r.length + Len(modStr),
                      text |-> IF front THEN modStr \o r.text ELSE r.text \o modStr]
Pop ==
  /\ pc = "pop"
  /\ LET r1 == IF flags.before THEN Restore(res, ~flags.mia) ELSE res
         ar1 == IF flags.before THEN FALSE ELSE flags.around
         r2 == IF flags.after THEN Restore(r1, TRUE) ELSE r1
         ar2 == IF flags.after THEN FALSE ELSE ar1
         r3 == IF flags.since THEN Restore(r2, TRUE) ELSE r2
         ar3 == IF flags.since /\ ResetAround THEN FALSE ELSE ar2
         r4 == IF ar3 THEN Restore(r3, TRUE) ELSE r3
         r5 == IF flags.equal THEN Restore(r4, TRUE) ELSE r4
     IN res' = r5
  /\ pc' = "done" /\ UNCHANGED <<inp, start, length, text, modStr, flags>>
Next == Push \/ Parse \/ Pop
Spec == Init /\ [][Next]_vars

Restored == pc = "done" => res = [start |-> inp.start, length |-> Len(inp.text), text |-> inp.text]
StrippedInside == pc = "parse" => start >= inp.start /\ start + length = inp.start + Len(inp.text) /\ length = Len(text) /\ text = From(inp.text, start - inp.start)
=============================================================================
