----------------------------- MODULE RelPeriodMech -----------------------------
(* Transcription of the week / weekend / month / year branches of
   BaseDatePeriodParser._parse_one_word_period ("this|next|last week|weekend|month|year") together
   with DateUtils.this / next / last, with datedelta's roll-over semantics for month and year
   shifts.  MonthFromFirst = TRUE: the month is shifted from day 1 of the reference month (after
   the fix commit); FALSE: from the reference day itself (before).
   TLC compares the result with the contract of RelDate.tla for every reference day of the given
   years and every shift.  The weekend branch is not part of C08; its TIMEX takes the calendar year
   of the reference instead of the ISO week-year, which the invariant WeekendIsoYear exposes. *)
EXTENDS Integers, Sequences, FiniteSets, TLC, RTStrings, Calendar

CONSTANTS RefYears, MonthFromFirst

(* DateUtils.this(from, day_of_week) *)
This(n, dow) == n + (dow - IsoWeekday(n))
(* datedelta: add years then months, a non-existent day rolls over to the 1st of the next month *)
AddYearsRollover(n, k) == LET c == FromOrdinal(n) IN
                          IF c[3] <= DaysInMonth(c[1] + k, c[2]) THEN Ordinal(c[1] + k, c[2], c[3])
                          ELSE LET nx == ShiftMonth(c[1] + k, c[2], 1) IN Ordinal(nx[1], nx[2], 1)
AddMonthsRoll(n, k) == LET c == FromOrdinal(n) r == AddMonthsRollover(c[1], c[2], c[3], k) IN Ordinal(r[1], r[2], r[3])

Week(n, swift) ==
  LET th == This(n, 4) + 7 * swift
      begin == This(n, 1) + 7 * swift
      end == This(n, 7) + 7 * swift + 1
  IN [timex |-> Pad4(FromOrdinal(th)[1]) \o "-W" \o Pad2(IsoWeek(th)), start |-> begin, end |-> end]
Weekend(n, swift) ==
  LET begin == This(n, 6) + 7 * swift
      end == This(n, 7) + 7 * swift + 1
  IN [timex |-> Pad4(FromOrdinal(n)[1]) \o "-W" \o Pad2(IsoWeek(begin)) \o "-WE", start |-> begin, end |-> end]
Month(n, swift) ==
  LET c == FromOrdinal(n)
      t == IF MonthFromFirst THEN AddMonthsRoll(Ordinal(c[1], c[2], 1), swift) ELSE AddMonthsRoll(n, swift)
      tc == FromOrdinal(t)
      begin == Ordinal(tc[1], tc[2], 1)
  IN [timex |-> Pad4(tc[1]) \o "-" \o Pad2(tc[2]), start |-> begin, end |-> AddMonthsRoll(begin, 1)]
Year(n, swift) ==
  LET y == FromOrdinal(AddYearsRollover(n, swift))[1] IN
  [timex |-> Pad4(y), start |-> Ordinal(y, 1, 1), end |-> Ordinal(y + 1, 1, 1)]

(* ---- contract (RelDate.tla) *)
WeekC(n, swift) == LET mon == MondayOf(n) + 7 * swift IN [timex |-> Pad4(IsoWeekYear(mon)) \o "-W" \o Pad2(IsoWeek(mon)), start |-> mon, end |-> mon + 7]
MonthC(n, swift) == LET c == FromOrdinal(n) ym == ShiftMonth(c[1], c[2], swift) nx == ShiftMonth(ym[1], ym[2], 1)
                    IN [timex |-> Pad4(ym[1]) \o "-" \o Pad2(ym[2]), start |-> Ordinal(ym[1], ym[2], 1), end |-> Ordinal(nx[1], nx[2], 1)]
YearC(n, swift) == LET y == FromOrdinal(n)[1] + swift IN [timex |-> Pad4(y), start |-> Ordinal(y, 1, 1), end |-> Ordinal(y + 1, 1, 1)]

VARIABLES n, swift, unit, res, pc
vars == <<n, swift, unit, res, pc>>
RefDays == UNION { { Ordinal(y, 1, 1) + k : k \in 0..(IF IsLeap(y) THEN 365 ELSE 364) } : y \in RefYears }
Init == n \in RefDays /\ swift \in {-1, 0, 1} /\ unit \in {"week", "weekend", "month", "year"} /\ res = [timex |-> "", start |-> 0, end |-> 0] /\ pc = "call"
Call == /\ pc = "call"
        /\ res' = CASE unit = "week" -> Week(n, swift) [] unit = "weekend" -> Weekend(n, swift) [] unit = "month" -> Month(n, swift) [] unit = "year" -> Year(n, swift)
        /\ pc' = "done" /\ UNCHANGED <<n, swift, unit>>
Next == Call
Spec == Init /\ [][Next]_vars

MeetsContract == pc = "done" =>
  CASE unit = "week" -> res = WeekC(n, swift) [] unit = "month" -> res = MonthC(n, swift) [] unit = "year" -> res = YearC(n, swift) [] OTHER -> TRUE
WeekendIsoYear == (pc = "done" /\ unit = "weekend") => SubSeq(res.timex, 1, 4) = Pad4(IsoWeekYear(res.start))
=============================================================================
