#!/bin/sh
# usage: tools/try_patch_wt.sh <abs patch> <ID> [tier]  -- like try_patch.sh, but the patch is applied in a scratch worktree of /repo
# HEAD (VERIF_REPO), so /repo itself stays untouched (use while other checks read /repo).
P=$1; ID=$2; TIER=${3:-quick}
WT=/tmp/tpwt_$$
git -C /repo worktree add -q --detach $WT HEAD || exit 2
if ! git -C $WT apply "$P"; then echo "patch does not apply"; git -C /repo worktree remove --force $WT; exit 2; fi
cd /verif && VERIF_EVIDENCE_DIR=/tmp/try_patch_evidence VERIF_REPO=$WT ./check $ID --tier $TIER > /tmp/try_patch_$$.out 2>&1; RC=$?
git -C /repo worktree remove --force $WT
echo "exit=$RC"; grep -c '^VIOLATION' /tmp/try_patch_$$.out | sed 's/^/violations=/'; grep -m4 -A1 '^VIOLATION\|^MACHINERY' /tmp/try_patch_$$.out
rm -f /tmp/try_patch_$$.out
exit 0
