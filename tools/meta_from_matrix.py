#!/usr/bin/env python3
"""tools/meta_from_matrix.py  -- for every seeded/<name>/ without meta.json (reverse-fix seeds), write one from its line in
seeded/MATRIX.txt (tools/matrix.sh) and the fix commit recorded in fix.diff / known_findings.jsonl."""
import json, os, re
root = '/verif/seeded'
lines = {}
for l in open(os.path.join(root, 'MATRIX.txt')):
    name = l.split(' ', 1)[0]
    lines[name] = l.strip()
for name in sorted(os.listdir(root)):
    d = os.path.join(root, name)
    if not os.path.isdir(d) or name.startswith('_') or os.path.exists(os.path.join(d, 'meta.json')):
        continue
    if name not in lines:
        continue
    l = lines[name]
    m = re.search(r'check=(\S+) patch=(\S+) exit=(\d+) violations=(\d+)', l)
    first = l.split('first=', 1)[1].strip() if 'first=' in l else ''
    prop = name.split('-')[0]
    meta = {'breaks_property': prop,
            'needs_to_manifest': 'reverse of a fix commit (fix.diff is the fix, patch.diff its reversal); the original defect and its input are recorded in known_findings.jsonl',
            'confirmed': ['the defect was reproduced against the real code before the fix (known_findings.jsonl, status fixed); the pinned suite and the repository spec suite keep their baseline with and without the fix'],
            'ran': 'tools/matrix.sh (patch applied in a scratch worktree, VERIF_REPO): ./check %s --tier quick' % (m.group(1) if m else prop),
            'detected_by': ('exit %s, %s VIOLATION line(s); first: %s' % (m.group(3), m.group(4), first)) if m else l}
    json.dump(meta, open(os.path.join(d, 'meta.json'), 'w'), indent=1, ensure_ascii=False)
    print('wrote', name)
