#!/bin/sh
# usage: tools/sweep.sh <tier> <seed> <outdir> [ids...] : run checks sequentially, keep their output
TIER=$1; SEED=$2; OUT=$3; shift 3
IDS=${@:-C01 C02 C03 C04 C05 C06 C07 C08 C09 C10 C11 C12 C13 C14 C15 C16 C17 C19 C20}
mkdir -p $OUT
cd /verif
for id in $IDS; do
  S=$(date +%s)
  VERIF_SEED=$SEED ./check $id --tier $TIER > $OUT/$id.out 2>&1
  RC=$?
  cp evidence/$id.json $OUT/$id.evidence.json 2>/dev/null
  echo "$id tier=$TIER seed=$SEED exit=$RC wall=$(( $(date +%s) - S ))s violations=$(grep -c '^VIOLATION' $OUT/$id.out)" >> $OUT/SUMMARY.txt
done
