#!/bin/sh
# usage: tools/matrix.sh <outfile> [seed dir names...]  -- detection matrix: every seeded change x the check of its property (quick tier),
# run against a scratch worktree of /repo HEAD (VERIF_REPO), so /repo itself stays untouched.  Removes the worktree afterwards.
OUT=$1; shift
WT=/tmp/matrix_wt_$$
git -C /repo worktree add -q --detach $WT HEAD || exit 2
cd /verif
NAMES=${@:-$(ls seeded | grep -v '^_' | grep -v MATRIX)}
: > $OUT
for s in $NAMES; do
  d=seeded/$s
  [ -d $d ] || continue
  P=$d/patch.diff; [ -f $d/patch_rebased.diff ] && P=$d/patch_rebased.diff
  ID=${s%%-*}
  if ! git -C $WT apply /verif/$P 2>/dev/null; then echo "$s check=$ID patch=$(basename $P) DOES-NOT-APPLY" >> $OUT; continue; fi
  S=$(date +%s)
  VERIF_EVIDENCE_DIR=/tmp/matrix_evidence_$$ VERIF_REPO=$WT ./check $ID --tier quick > /tmp/matrix_$$.out 2>&1; RC=$?
  git -C $WT checkout -- . ; git -C $WT clean -fdq
  echo "$s check=$ID patch=$(basename $P) exit=$RC violations=$(grep -c '^VIOLATION' /tmp/matrix_$$.out) wall=$(( $(date +%s) - S ))s first=$(grep -m1 -A1 '^VIOLATION' /tmp/matrix_$$.out | tail -1 | cut -c1-160)" >> $OUT
done
git -C /repo worktree remove --force $WT
rm -rf /tmp/matrix_$$.out /tmp/matrix_evidence_$$
