import sys
def edit(path, old, new):
    s=open(path, newline='').read()
    crlf = '\r\n' in s
    if crlf:
        old=old.replace('\n','\r\n'); new=new.replace('\n','\r\n')
    assert s.count(old)==1, (path, s.count(old))
    open(path,'w', newline='').write(s.replace(old,new))
