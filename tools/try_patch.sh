#!/bin/sh
# usage: tools/try_patch.sh [-R] <patch> <ID> [tier]   -- apply a seeded change to /repo, run one check, undo.
REV=""
if [ "$1" = "-R" ]; then REV="-R"; shift; fi
P=$1; ID=$2; TIER=${3:-quick}
cd /repo || exit 2
if [ -n "$(git status --porcelain --untracked-files=no)" ]; then echo "repo not clean"; exit 2; fi
git apply $REV "$P" || { echo "patch does not apply"; exit 2; }
cd /verif && VERIF_EVIDENCE_DIR=/tmp/try_patch_evidence ./check $ID --tier $TIER > /tmp/try_patch.out 2>&1; RC=$?
git -C /repo checkout -- .
echo "exit=$RC"; grep -c '^VIOLATION' /tmp/try_patch.out | sed 's/^/violations=/'; grep -m4 -A1 '^VIOLATION\|^MACHINERY' /tmp/try_patch.out
exit 0
