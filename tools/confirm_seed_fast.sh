#!/bin/sh
# usage: tools/confirm_seed_fast.sh <PROP> <mX>   -- as confirm_seed.sh but without the (slow) repository spec-driven suite
# (demo passes clean / fails patched; pinned suite and the repo's spec-driven suite keep their baseline), then keep it under /verif/seeded.
ID=$1; M=$2
SRC=/tmp/wt/out/$ID/$M
WT=/tmp/wt/confirm_${ID}_$M
OUT=/verif/seeded/$ID-$M
[ -f $SRC/patch.diff ] || { echo "no patch"; exit 2; }
git -C /repo worktree add -q --detach $WT HEAD || exit 2
PP="/verif/shims:$(ls -d $WT/Python/libraries/*/ | tr '\n' ':')"
run_demo() { (cd $WT && PYTHONDONTWRITEBYTECODE=1 PYTHONPATH="$PP" timeout 900 /venv/bin/python $SRC/demo.py $WT >/tmp/wt/demo_${ID}_$M.$1 2>&1; echo $?); }
CLEAN=$(run_demo clean)
if ! git -C $WT apply $SRC/patch.diff 2>/tmp/wt/apply_${ID}_$M.err; then
  echo "{\"applies\": false}" > /tmp/wt/confirm_${ID}_$M.json; git -C /repo worktree remove --force $WT; echo "$ID $M: patch does not apply to HEAD"; exit 1
fi
PATCHED=$(run_demo patched)
PINNED=$(cd $WT && /venv/bin/python -m pytest -q -p no:cacheprovider --timeout=900 --continue-on-collection-errors 2>&1 | tail -1)
SPEC="not run (time)"

git -C /repo worktree remove --force $WT
echo "$ID $M: demo clean=$CLEAN patched=$PATCHED | pinned: $PINNED | spec: $SPEC"
if [ "$CLEAN" = "0" ] && [ "$PATCHED" != "0" ]; then
  mkdir -p $OUT && cp $SRC/patch.diff $SRC/demo.py $OUT/ && cp $SRC/notes.md $OUT/notes.md
  cat > $OUT/confirm.txt <<EOT
confirmed in scratch worktree of /repo HEAD $(git -C /repo rev-parse --short HEAD):
demo.py on clean tree: exit $CLEAN; with patch.diff applied: exit $PATCHED
pinned suite with patch: $PINNED
repo spec-driven suite (Python/tests, with shims) with patch: $SPEC
EOT
fi
