#!/usr/bin/env python3
"""tools/seed_meta.py <seed dir name> <property> <needs> <detected-by text>  -- writes seeded/<name>/meta.json"""
import json, os, sys
name, prop, needs, detected = sys.argv[1:5]
d = os.path.join('/verif/seeded', name)
confirm = open(os.path.join(d, 'confirm.txt')).read() if os.path.exists(os.path.join(d, 'confirm.txt')) else ''
meta = {'breaks_property': prop, 'needs_to_manifest': needs, 'confirmed': confirm.strip().split('\n'),
        'ran': 'tools/try_patch.sh seeded/%s/patch.diff %s quick  (git -C /repo apply; ./check %s --tier quick; git -C /repo checkout -- .)' % (name, prop, prop),
        'detected_by': detected}
json.dump(meta, open(os.path.join(d, 'meta.json'), 'w'), indent=1)
print('wrote', d + '/meta.json')
