#!/usr/bin/env python3
"""tools/mk_trace.py NAME EXTENDS 'JUDGE EXPR over e' [CONST=VALUE ...]: writes spec/trace/Trace_NAME.tla/.cfg
from the common template (one event = [id, c, obs]; total verdicts; RESULT line)."""
import sys
name, ext, judge = sys.argv[1:4]
consts = sys.argv[4:]
tla = f'''{'-' * 25} MODULE Trace_{name} {'-' * 25}
(* code -> spec: one event per call on a generated case [id, c, obs]; the contract's verdict
   decides; a failing event is recorded and the trace goes on (total verdicts). *)
EXTENDS {ext}, Json, IOUtils
Events == JsonDeserialize(IOEnv.VERIF_EVENTS)
N == Len(Events)
VARIABLES i, bad, nbad
vars == <<i, bad, nbad>>
Judge(e) == IF "exception" \\in DOMAIN e.obs THEN "Raised: the call raised " \\o e.obs.exception
            ELSE {judge}
Init == i = 1 /\\ bad = <<>> /\\ nbad = 0
Consume == /\\ i <= N
           /\\ LET e == Events[i] v == Judge(e) IN
                /\\ bad' = IF v # "ok" /\\ Len(bad) < 4000 THEN Append(bad, <<e.id, v>>) ELSE bad
                /\\ nbad' = IF v # "ok" THEN nbad + 1 ELSE nbad
           /\\ i' = i + 1
Next == Consume
Spec == Init /\\ [][Next]_vars
Report == (i = N + 1) => PrintT(<<"RESULT", N, nbad, bad, <<>>>>)
AllConsumed == TLCGet("stats").diameter - 1 = N
{'=' * 77}
'''
cfg = 'SPECIFICATION Spec\n' + ('CONSTANTS\n' + ''.join('  %s\n' % c for c in consts) if consts else '') + 'INVARIANT Report\nPOSTCONDITION AllConsumed\nCHECK_DEADLOCK FALSE\n'
open('/verif/spec/trace/Trace_%s.tla' % name, 'w').write(tla)
open('/verif/spec/trace/Trace_%s.cfg' % name, 'w').write(cfg)
print('wrote Trace_%s' % name)
