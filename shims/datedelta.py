"""Minimal stand-in for the PyPI 'datedelta' package (v1.4 semantics)."""
import calendar
import datetime


class datedelta:
    __slots__ = ['_years', '_months', '_days']

    def __init__(self, years=0, months=0, days=0):
        for name, v in (('years', years), ('months', months), ('days', days)):
            if int(v) != v:
                raise ValueError("%s must be an integer value" % name)
        self._years, self._months, self._days = int(years), int(months), int(days)

    years = property(lambda self: self._years)
    months = property(lambda self: self._months)
    days = property(lambda self: self._days)

    def __repr__(self):
        return 'datedelta(years=%d, months=%d, days=%d)' % (self._years, self._months, self._days)

    def __eq__(self, other):
        if isinstance(other, datedelta):
            return (self._years, self._months, self._days) == (other._years, other._months, other._days)
        return NotImplemented

    def __hash__(self):
        return hash((self._years, self._months, self._days))

    def __neg__(self):
        return datedelta(-self._years, -self._months, -self._days)

    def __add__(self, other):
        if isinstance(other, datedelta):
            return datedelta(self._years + other._years, self._months + other._months, self._days + other._days)
        return NotImplemented

    def __sub__(self, other):
        if isinstance(other, datedelta):
            return datedelta(self._years - other._years, self._months - other._months, self._days - other._days)
        return NotImplemented

    def __radd__(self, other):
        if isinstance(other, datetime.date):
            year, month, day = other.year, other.month, other.day
            if self._years:
                year += self._years
                if day > calendar.monthrange(year, month)[1]:
                    month += 1
                    day = 1
            if self._months:
                month += self._months
                dyear, month0 = divmod(month - 1, 12)
                year += dyear
                month = month0 + 1
                if day > calendar.monthrange(year, month)[1]:
                    month += 1
                    day = 1
            result = other.replace(year, month, day)
            if self._days:
                result += datetime.timedelta(days=self._days)
            return result
        return NotImplemented

    def __rsub__(self, other):
        if isinstance(other, datetime.date):
            return other + (-self)
        return NotImplemented

    def __mul__(self, other):
        if isinstance(other, int):
            return datedelta(self._years * other, self._months * other, self._days * other)
        return NotImplemented
    __rmul__ = __mul__
