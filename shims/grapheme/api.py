def slice(string, start=None, end=None):
    if start is None and end is None:
        return string
    raise NotImplementedError
