from .api import slice
